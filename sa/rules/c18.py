"""C18 - veriT step evaluation: truncating comparisons, hypotheses of premises, no unconditional acceptance.

smt/veriT cannot be imported in the test environment (the PyPI package `smt` shadows it), so no baseline
test runs this code; the source-level analysis is the only check that sees it."""
import ast

from ..core import RuleResult, need
from ..cfg import cfg_of
from ..flow import flow_of, path_base
from ..astutil import src, call_name, call_attr, returns_of, walk_no_nested, is_name, compare_parts
from ..macros import macro_index
from . import macro_rules as mr

NOT_DECIDED = ('logical validity of each of the ~90 Alethe rule shapes (needs a semantic oracle); the LA/LIA '
               'coefficient arithmetic of la_generic (numerical)')
ASSUMPTIONS = ['Thm(prop, *hyps) builds hyps |- prop',
               'helper functions that raise VeriTException reject the step']


def rule_r3(repo):
    res = RuleResult('C18.R3', 'no evaluation accepts a clause taken from its arguments without any test or rejecting helper on the way', floor=70)
    for mi in macro_index(repo):
        if mi.eval is None or not mr.verit_macros(mi):
            continue
        f = mi.eval
        cfg = cfg_of(f.node)
        flow = flow_of(f.node)
        tests = [n for n in cfg.nodes if n.kind in ('test', 'iter')]
        params = f.params()
        argp = params[1] if len(params) > 1 else None
        for ret in returns_of(f.node):
            if not (isinstance(ret.value, ast.Call) and call_name(ret.value) == 'Thm' and ret.value.args):
                continue
            rn = cfg.node_for(ret)
            path = cfg.path_avoiding(rn, skip_nodes=tests)
            ok = True
            why = 'acceptance depends on at least one test'
            if path is not None:
                prop = ret.value.args[0]
                # a proposition *computed* by the rule (normal form, constructed equation) is not a claim
                claimed = isinstance(prop, (ast.Name, ast.Subscript, ast.Attribute)) or \
                    (isinstance(prop, ast.Call) and call_name(prop) in ('Or', 'And') and
                     all(isinstance(a, (ast.Starred, ast.Name, ast.Subscript)) for a in prop.args))
                roots = flow.resolve(prop)
                from_args = argp is not None and any(path_base(p) == argp for p in roots)
                rejecting_helper = False
                for n in path:
                    if n.kind != 'stmt':
                        continue
                    for c in ast.walk(n.ast):
                        if isinstance(c, ast.Call):
                            for t in repo.resolve_call(f, c):
                                # helpers of the reconstruction itself (kernel constructors such as Thm / Or
                                # raise only on ill-formed input and do not check the step)
                                if t.module.rel.startswith('smt/veriT/') and \
                                        any(isinstance(x, (ast.Raise, ast.Assert)) for x in ast.walk(t.node)):
                                    rejecting_helper = True
                if claimed and from_args and not rejecting_helper:
                    ok = False
                    why = 'return at line %d hands back the clause given in the arguments with no test and no rejecting helper on the path' % ret.lineno
                else:
                    why = 'straight-line, but the proposition is computed by the rule or a helper can reject'
            res.add('%s :: eval :: return@%s' % (mi.key, src(ret.value.args[0], 40)), ok, why, '%s:%d' % (f.module.rel, ret.lineno))
    return res


# confirmed exceptions for R4: (function, construct text) -> reason
R4_EXEMPT = {
    ('analyze_args', 'integer.int_eval(coeff.arg1) / integer.int_eval(coeff.arg)'):
        'the Farkas coefficients supplied with an la_generic step are only multipliers: any values are sound as long as the '
        'combination is checked exactly afterwards, so a rounding error here can only make a valid step fail',
    ('analyze_args', 'lcm * d / math.gcd(lcm, d)'):
        'same: least common denominator of the supplied coefficients',
}


def rule_r4(repo):
    from .c05 import inexact_sources
    res = RuleResult('C18.R4', 'the arithmetic evaluators of the reconstruction compute with integers and fractions only', floor=2)
    n_funcs = 0
    for f in mr.verit_eval_side_functions(repo):
        if f.module.rel != 'smt/veriT/la_generic.py':
            continue
        n_funcs += 1
        for n in ast.walk(f.node):
            pass
        found = inexact_sources(repo, f)
        # locate the construct text for the exception table
        for ln, what in found:
            text = None
            for x in walk_no_nested(f.node, include_root=False):
                if getattr(x, 'lineno', None) == ln and isinstance(x, ast.BinOp) and isinstance(x.op, (ast.Div, ast.Pow)):
                    text = src(x, 200)
                    break
            ex = R4_EXEMPT.get((f.qualname, text))
            res.add('smt/veriT/la_generic.py :: %s :: inexact(%s)' % (f.qualname, text or what), ex is not None,
                    'confirmed exception: ' + ex if ex else
                    '%s: floating point in the rounding / combination of linear inequalities (e.g. int(c / k) rounds toward zero where '
                    'c // k rounds down) lets an unsound step be accepted' % what, 'smt/veriT/la_generic.py:%d' % ln,
                    nontrivial=ex is None)
    need(n_funcs >= 10, 'la_generic.py: evaluation-side functions not found')
    res.info['functions_scanned'] = n_funcs
    return res


def rule_r5(repo):
    """When an evaluator keeps only a suffix `E[k:]` of a list taken from the goal or a premise, the
    components it cuts off must be examined somewhere (E[0], E[:k], or E as a whole); otherwise they can
    be anything."""
    res = RuleResult('C18.R5', 'components cut off from a goal-derived list by a suffix slice are examined elsewhere in the evaluator', floor=8)
    for mi in macro_index(repo):
        if mi.eval is None or not mr.verit_macros(mi):
            continue
        f = mi.eval
        flow = flow_of(f.node)
        params = f.params()[1:3]
        parent = {}
        for n in ast.walk(f.node):
            for ch in ast.iter_child_nodes(n):
                parent[id(ch)] = n
        for x in ast.walk(f.node):
            if not (isinstance(x, ast.Subscript) and isinstance(x.slice, ast.Slice) and x.slice.upper is None and x.slice.step is None and
                    isinstance(x.slice.lower, ast.Constant) and isinstance(x.slice.lower.value, int) and x.slice.lower.value >= 1):
                continue
            if not any(path_base(p) in params for p in flow.resolve(x.value)):
                continue
            k = x.slice.lower.value
            base = src(x.value, 300)
            # the same list under other names: `conjs = rhs.strip_conj()`
            aliases = {base}
            if isinstance(x.value, ast.Name):
                aliases |= {src(r, 300) for kd, r in flow.defs.get(x.value.id, []) if kd == 'value'}
            for nm, defs in flow.defs.items():
                if any(kd == 'value' and src(r, 300) in aliases for kd, r in defs):
                    aliases.add(nm)
            examined = False
            for y in ast.walk(f.node):
                if not isinstance(y, (ast.Name, ast.Attribute, ast.Call, ast.Subscript)) or src(y, 300) not in aliases:
                    continue
                if isinstance(y, ast.Name) and isinstance(y.ctx, ast.Store):
                    continue
                par = parent.get(id(y))
                if isinstance(par, ast.Subscript) and par.value is y:
                    sl = par.slice
                    suffix = isinstance(sl, ast.Slice) and sl.upper is None and isinstance(sl.lower, ast.Constant) and \
                        isinstance(sl.lower.value, int) and sl.lower.value >= k
                    if not suffix:
                        examined = True       # an index or a prefix slice
                    continue
                if isinstance(par, ast.Assign) and par.value is y:
                    continue                  # the definition of an alias
                if isinstance(par, ast.Call) and isinstance(par.func, ast.Name) and par.func.id == 'len':
                    continue                  # only its length
                examined = True               # the whole list is used
            res.add('%s :: eval :: suffix(%s[%d:])' % (mi.key, src(x.value, 40), k), examined,
                    'the first %d component(s) are read elsewhere' % k if examined else
                    'only `%s` is used; the first %d component(s) of that list are never looked at, so the step is accepted whatever they are' % (
                        src(x, 50), k), '%s:%d' % (f.module.rel, x.lineno))
    return res


def rule_r6(repo):
    """What an evaluator collects from its premises must be consulted: a container that only ever
    receives values (add / append / subscript store) and is never read means the premises it was filled
    from play no part in the decision."""
    res = RuleResult('C18.R6', 'a container an evaluator fills from its premises or arguments is consulted before the step is accepted', floor=10)
    MUT = {'add', 'append', 'extend', 'update', 'insert'}
    for mi in macro_index(repo):
        if mi.eval is None or not mr.verit_macros(mi):
            continue
        f = mi.eval
        flow = flow_of(f.node)
        params = f.params()[1:3]
        recv_ids = set()
        filled = {}
        for c in ast.walk(f.node):
            if isinstance(c, ast.Call) and isinstance(c.func, ast.Attribute) and c.func.attr in MUT and isinstance(c.func.value, ast.Name):
                recv_ids.add(id(c.func.value))
                filled.setdefault(c.func.value.id, []).extend(c.args)
            if isinstance(c, ast.Assign):
                for t in c.targets:
                    if isinstance(t, ast.Subscript) and isinstance(t.value, ast.Name):
                        recv_ids.add(id(t.value))
                        filled.setdefault(t.value.id, []).append(c.value)
        reads = {}
        for n in ast.walk(f.node):
            if isinstance(n, ast.Name) and isinstance(n.ctx, ast.Load) and id(n) not in recv_ids:
                reads[n.id] = reads.get(n.id, 0) + 1
        for name, vals in sorted(filled.items()):
            if name in f.params() or not flow.is_local(name):
                continue
            from_input = any(path_base(p) in params for v in vals for p in flow.resolve(v))
            if not from_input:
                continue
            ok = reads.get(name, 0) > 0
            res.add('%s :: eval :: container(%s)' % (mi.key, name), ok,
                    'read %d time(s)' % reads.get(name, 0) if ok else
                    '`%s` is filled from the premises / arguments and never read: what was collected does not influence acceptance' % name,
                    f.loc)
    return res


def rule_r7(repo):
    """Whether a step is accepted must depend on the step alone.  A container that survives the call - a
    mutable default argument that the function (or a helper nested in it) fills, or a module-level /
    class-level table an evaluation-side function both fills and consults - carries facts established
    under the premises and context of one step over to the next."""
    from .. import persist
    res = RuleResult('C18.R7', 'no evaluation-side function of the reconstruction fills a container that outlives the call and is consulted later', floor=150)
    n = 0
    for f in mr.verit_eval_side_functions(repo):
        n += 1
        if f.parent is not None:
            continue          # nested helpers are covered through the function that contains them
        key = '%s :: %s :: call-local-state' % (f.module.rel, f.qualname)
        bad = []
        for p, d in persist.mutable_defaults(f.node).items():
            if persist.rebinds(f.node, p):
                continue
            muts = persist.mutations_of(f.node, lambda e, p=p: isinstance(e, ast.Name) and e.id == p)
            if muts:
                bad.append('default value `%s=%s` is one object for all calls and is modified at line %d (%s)' % (p, src(d, 20), muts[0][0], muts[0][1]))
        conts = set(persist.module_containers(f.module))
        if f.cls is not None:
            conts |= {'self.' + c for c in persist.class_containers(f.cls.node)} | {'%s.%s' % (f.cls.name, c) for c in persist.class_containers(f.cls.node)}
        locals_ = {a.arg for a in ast.walk(f.node) if isinstance(a, ast.arg)} | \
            {t.id for x in ast.walk(f.node) if isinstance(x, ast.Assign) for t in x.targets if isinstance(t, ast.Name)}
        for c in sorted(conts):
            if c in locals_:
                continue
            muts = persist.mutations_of(f.node, lambda e, c=c: src(e) == c)
            if muts:
                bad.append('module / class level `%s` is modified at line %d (%s)' % (c, muts[0][0], muts[0][1]))
        res.add(key, not bad, 'all containers it fills are created in the call' if not bad else
                '; '.join(bad) + ' -- what one step established (under its own premises and context) is still there when the next step is evaluated',
                f.loc, nontrivial=bool(bad))
    res.info['functions_scanned'] = n
    return res


def rule_r8(repo):
    """An evaluator that walks down a right-nested conjunction / disjunction by hand
    (`while c.is_conj(): ...; c = c.arg`) leaves the loop with the last component in `c`.  That component
    must be looked at: after the loop (or in its else clause), or in each round as `c.arg` in a test that
    decides acceptance.  Otherwise the last conjunct can be anything - and a term that is no conjunction
    at all passes with nothing compared."""
    res = RuleResult('C18.R8', 'a hand-written walk over a nested connective accounts for the component it stops at', floor=3)
    for f in mr.verit_eval_side_functions(repo):
        own = list(walk_no_nested(f.node, include_root=False))
        for w in own:
            if not isinstance(w, ast.While):
                continue
            tnames = {x.id for x in ast.walk(w.test) if isinstance(x, ast.Name)}
            adv = [st for st in ast.walk(w) if isinstance(st, ast.Assign) and len(st.targets) == 1 and isinstance(st.targets[0], ast.Name) and
                   isinstance(st.value, ast.Attribute) and is_name(st.value.value, st.targets[0].id) and st.targets[0].id in tnames]
            for st in adv:
                v, attr = st.targets[0].id, st.value.attr
                after = [x for x in own if isinstance(x, ast.Name) and x.id == v and isinstance(x.ctx, ast.Load) and x.lineno > (w.end_lineno or 0)]
                orelse = [x for o in w.orelse for x in ast.walk(o) if isinstance(x, ast.Name) and x.id == v]
                deciding = False
                for i in ast.walk(w):
                    if isinstance(i, ast.If) and any(isinstance(a, ast.Attribute) and a.attr == attr and is_name(a.value, v) for a in ast.walk(i.test)) and \
                            any(isinstance(r, ast.Return) for b in i.body for r in ast.walk(b)):
                        deciding = True
                ok = bool(after or orelse or deciding)
                res.add('%s :: %s :: walk(%s = %s.%s)' % (f.module.rel, f.qualname, v, v, attr), ok,
                        'the component the walk stops at is examined' if ok else
                        'after `while %s` nothing reads `%s`: the last component is never compared, and a term of another shape passes with '
                        'nothing compared at all (and_neg accepted the one-literal clause `false`)' % (src(w.test, 40), v), '%s:%d' % (f.module.rel, w.lineno))
    return res


# confirmed exceptions for R9: (macro name, base text) -> reason
R9_EXEMPT = {
    ('verit_la_generic', 'dis_eq'):
        'only the type of the part is read (`dis_eq.arg.get_type()`) to choose between integer and real arithmetic; every literal is '
        'classified by is_less / is_less_eq / is_equals tests in step 1, which reject any other shape',
    ('verit_la_generic', 'dis_eq_bd'):
        'same: `dis_eq_bd.arg.get_type()` precedes the is_less / is_less_eq tests of the same branch, which raise for any other shape',
}


def shape_sites(repo, mi):
    """(key, ok, why, loc) for every term of the premises / arguments that the evaluator takes apart"""
    from .c18_shape import ShapeAnalysis
    f = mi.eval
    params = f.params()
    sa_ = ShapeAnalysis(f.node, params[1:3])
    groups = {}
    for a, base, canon in sa_.sites():
        groups.setdefault(src(base, 200), []).append((a, canon))
    out = []
    for base_txt, sites in sorted(groups.items()):
        bad = []
        for a, canon in sites:
            r = sa_.check(a, canon)
            if r is False:
                bad.append(a)
        key = '%s :: eval :: shape-of(%s)' % (mi.key, base_txt[:60])
        ex = R9_EXEMPT.get((mi.names[0], base_txt))
        if bad and ex:
            out.append((key, True, 'confirmed exception: ' + ex, '%s:%d' % (f.module.rel, bad[0].lineno)))
            continue
        out.append((key, not bad,
                    'its head connective (or the whole term) is tested before it is taken apart' if not bad else
                    '`%s.%s` (line %d) is read without any test of what `%s` is: a term with another connective in the same positions '
                    '(a | b for a <--> b, p & q for ~q ...) is taken apart the same way and the step is accepted' % (
                        base_txt[:40], bad[0].attr, bad[0].lineno, base_txt[:40]),
                    '%s:%d' % (f.module.rel, (bad[0] if bad else sites[0][0]).lineno)))
    return out


def rule_r9(repo):
    """An evaluator reads the parts of a premise or of a goal literal by position (`.arg`, `.arg1`,
    `.args`).  Positions mean something only under a known head connective: the evaluator must have tested
    it (is_not(), is_conj(), is_equals(), is_comb(..)) or compared the whole term with an expected term."""
    res = RuleResult('C18.R9', 'a premise or goal literal is taken apart only after its head connective was tested', floor=80)
    for mi in macro_index(repo):
        if mi.eval is None or not mr.verit_macros(mi):
            continue
        for key, ok, why, loc in shape_sites(repo, mi):
            res.add(key, ok, why, loc)
    return res


def rule_r11(repo):
    """A copy-and-paste slip with an exact signature: two parts of the goal are unpacked together
    (`o1, o2 = rhs.arg.args`), one of them is compared twice in the same condition (`o2 == p1 and ... and
    p1 == o2`) and the other is never read.  The unread part can then be anything."""
    res = RuleResult('C18.R11', 'of two goal parts unpacked together, none is left unread while the other is compared twice in one condition', floor=60)
    n_funcs = 0
    for f in mr.verit_eval_side_functions(repo):
        if f.parent is not None:
            continue
        n_funcs += 1
        cfg = None
        bad = []
        for b in ast.walk(f.node):
            if not (isinstance(b, ast.BoolOp) and isinstance(b.op, ast.And)):
                continue
            seen = {}
            dups = []
            for v in b.values:
                cp = compare_parts(v)
                if cp and cp[0] is ast.Eq:
                    k = frozenset((src(cp[1], 100), src(cp[2], 100)))
                    if k in seen:
                        dups.append(v)
                    seen[k] = v
            for d in dups:
                names = {x.id for x in ast.walk(d) if isinstance(x, ast.Name)}
                cfg = cfg or cfg_of(f.node)
                node = cfg.node_for(d)
                if node is None:
                    continue
                for nm in sorted(names):
                    for a in cfg.reaching_assignments(node, nm):
                        if not (a.kind == 'stmt' and isinstance(a.ast, ast.Assign) and isinstance(a.ast.targets[0], (ast.Tuple, ast.List))):
                            continue
                        sibs = [t.id for t in a.ast.targets[0].elts if isinstance(t, ast.Name) and t.id != nm and not t.id.startswith('_')]
                        for sname in sibs:
                            # is this assignment of the sibling read anywhere before it is overwritten?
                            read = False
                            for n2 in cfg.nodes:
                                if n2 is a:
                                    continue
                                for h in cfg.headers(n2):
                                    if any(isinstance(x, ast.Name) and x.id == sname and isinstance(x.ctx, ast.Load) for x in ast.walk(h)) and \
                                            a in cfg.reaching_assignments(n2, sname):
                                        read = True
                            if not read:
                                bad.append('`%s` (unpacked at line %d together with `%s`) is never read, and `%s` is tested twice at line %d' % (
                                    sname, a.lineno, nm, src(d, 30), d.lineno))
        res.add('%s :: %s :: unpacked-parts-compared' % (f.module.rel, f.qualname), not bad,
                'no duplicated comparison next to an unread part' if not bad else bad[0] +
                ': the second comparison was meant for the unread part, which is now unconstrained', f.loc, nontrivial=bool(bad))
    res.info['functions_scanned'] = n_funcs
    return res


def rule_r10(repo):
    """C04.M10 restricted to the veriT evaluators (whose expansions no baseline test runs)"""
    from .c04 import rule_m10
    return rule_m10(repo, 'C18.R10', mr.verit_macros)


def rule_r13(repo):
    """The stale-operand rule of C06.Z6 for this property's modules."""
    from .. import persist
    res = RuleResult('C18.R13', 'after two sides were swapped, the expressions they were first bound to are not used again', floor=150)
    for rel in tuple(mr.VERIT_FILES):
        m = repo.module(rel)
        for f in m.all_funcs:
            cfg = cfg_of(f.node)
            bad = persist.stale_after_swap(f.node, cfg)
            res.add('%s :: %s :: no-stale-operand' % (rel, f.qualname), not bad,
                    'no use of a swapped operand through its old expression' if not bad else
                    '`%s` (line %d) is used after `%s` (line %d), where it no longer is what `%s` stands for' % (
                        bad[0][2], bad[0][1].lineno, src(bad[0][0].ast, 40), bad[0][0].lineno, bad[0][3]), f.loc, nontrivial=bool(bad))
    return res


def rule_r14(repo):
    """Conjunction and disjunction are idempotent: comparing their operand lists as sets is right.  Products and
    sums are not: x * x is not x.  An evaluator must not compare the factors (summands) of two sides as sets,
    or a repeated factor counts once: 2 * x * x * 3 = 6 * x would be accepted."""
    res = RuleResult('C18.R14', 'factors and summands are never compared as sets', floor=2)
    ARITH = {'strip_times', 'strip_times_full', 'strip_plus', 'strip_plus_full', 'strip_mult', 'strip_add'}
    for f in mr.verit_eval_side_functions(repo):
        if f.parent is not None:
            continue
        flow = flow_of(f.node)
        arith = set()
        for nm, defs in flow.defs.items():
            for kd, rh in defs:
                if any(isinstance(c, ast.Call) and (call_attr(c) in ARITH or (call_name(c) or '').split('.')[-1] in ARITH) for c in ast.walk(rh)):
                    arith.add(nm)
        # names derived from those lists (filters, slices)
        changed = True
        while changed:
            changed = False
            for nm, defs in flow.defs.items():
                if nm in arith:
                    continue
                for kd, rh in defs:
                    if any(isinstance(x, ast.Name) and x.id in arith for x in ast.walk(rh)) and \
                            isinstance(rh, (ast.ListComp, ast.Subscript, ast.Name, ast.Call)):
                        arith.add(nm)
                        changed = True
        if not arith:
            continue
        bad = [c for c in ast.walk(f.node) if isinstance(c, ast.Call) and call_name(c) in ('set', 'frozenset') and c.args and
               any(isinstance(x, ast.Name) and x.id in arith for x in ast.walk(c.args[0]))]
        # only sets that are compared (==, <=, issubset): building a set for membership tests is fine
        cmp_bad = []
        for cmp_ in ast.walk(f.node):
            if isinstance(cmp_, ast.Compare) and any(b is x for b in bad for x in ast.walk(cmp_)):
                cmp_bad.append(cmp_)
        res.add('%s :: %s :: multiplicity-kept' % (f.module.rel, f.qualname), not cmp_bad,
                'lists of factors / summands are compared as lists' if not cmp_bad else
                '`%s` compares factors (or summands) as sets: a factor that occurs twice counts once, so 2 * x * x * 3 = 6 * x is accepted' % src(cmp_bad[0], 60),
                '%s:%d' % (f.module.rel, (cmp_bad[0].lineno if cmp_bad else f.node.lineno)))
    return res


def rule_r15(repo):
    """A comparison function walks two terms in parallel: in a branch chosen by the head of the first
    (`tm1.is_plus()`) it reads the parts of the second (`tm2.arg1`).  The function itself shows that it does not
    trust its caller about the first term, so the second one needs the same test - otherwise `x + y` is compared
    part by part with `x - y` and found equal."""
    from .c18_shape import ShapeAnalysis
    res = RuleResult('C18.R15', 'a function that compares two terms part by part tests the head of both before it reads their parts', floor=1)
    n = 0
    for f in mr.verit_eval_side_functions(repo):
        if f.parent is not None or f.name in ('eval', '__init__'):
            continue
        ps = [p for p in f.params() if p != 'self']
        if len(ps) < 2:
            continue
        # a checker: it answers True / False
        if not any(isinstance(r, ast.Return) and isinstance(r.value, ast.Constant) and isinstance(r.value.value, bool) for r in ast.walk(f.node)) and \
                not any(isinstance(r, ast.Return) and isinstance(r.value, (ast.BoolOp, ast.Compare)) for r in ast.walk(f.node)):
            continue
        sa_ = ShapeAnalysis(f.node, ps)
        bad = []
        checked = 0
        for a, base, canon in sa_.sites():
            roots = {c.split('.')[0].split('[')[0] for c in canon}
            if len(roots) != 1:
                continue
            root = next(iter(roots))
            if root not in ps:
                continue
            r = sa_.check(a, canon)
            if r is not False:
                checked += r is True
                continue
            # is the same position of another parameter tested on every path to this site?
            for other in ps:
                if other == root:
                    continue
                twin = {other + c[len(root):] for c in canon}
                edges = sa_.edges_for(twin)
                node = sa_.cfg.node_for(a)
                if edges and node is not None and sa_.cfg.path_avoiding_consistent(node, skip_edges=edges, atom_key=sa_.atom_key) is None:
                    bad.append((a, other))
                    break
        if not bad and not checked:
            continue
        n += 1
        res.add('%s :: %s :: both-heads-tested' % (f.module.rel, f.qualname), not bad,
                'every part of a parameter is read under a test of that parameter' if not bad else
                '; '.join('line %d reads `%s` under a test of the head of `%s` only' % (a.lineno, src(a, 30), o) for a, o in bad[:4]) +
                ' -- a term with another head in the same positions is compared part by part and found equal (p & x + y = 0 <--> p & x - y = 0 was accepted)',
                '%s:%d' % (f.module.rel, bad[0][0].lineno if bad else f.node.lineno))
    res.info['functions'] = n
    return res


def rule_r16(repo):
    """A check that runs over the pairs of a mapping (variable -> the value it must have) has to look at both
    components: a loop `for v, t in m.items()` that never reads `t` checks that *some* equation for v exists, not
    that it is the equation v = t."""
    res = RuleResult('C18.R16', 'a checking loop over the pairs of a mapping reads both components', floor=1)
    for f in mr.verit_eval_side_functions(repo):
        if f.parent is not None:
            continue
        loops = [l for l in ast.walk(f.node) if isinstance(l, ast.For) and isinstance(l.target, (ast.Tuple, ast.List)) and
                 isinstance(l.iter, ast.Call) and call_attr(l.iter) == 'items' and len(l.target.elts) == 2]
        if not loops:
            continue
        bad = []
        for l in loops:
            used = set()
            for st in l.body:
                for x in ast.walk(st):
                    if isinstance(x, ast.Name) and isinstance(x.ctx, ast.Load):
                        used.add(x.id)
            # a component that is only handed to a local helper counts as read when the helper reads that parameter
            for nm in list(used):
                occ = [x for st in l.body for x in ast.walk(st) if isinstance(x, ast.Name) and x.id == nm and isinstance(x.ctx, ast.Load)]
                calls = [c for st in l.body for c in ast.walk(st) if isinstance(c, ast.Call) and isinstance(c.func, ast.Name) and c.func.id in f.nested]
                passed = {}
                for c in calls:
                    for i, a in enumerate(c.args):
                        if isinstance(a, ast.Name) and a.id == nm:
                            passed[id(a)] = (c.func.id, i)
                if occ and all(id(x) in passed for x in occ):
                    really = False
                    for x in occ:
                        h, i = passed[id(x)]
                        hp = f.nested[h].params()
                        if i < len(hp) and any(isinstance(y, ast.Name) and y.id == hp[i] and isinstance(y.ctx, ast.Load) for y in ast.walk(f.nested[h].node)):
                            really = True
                    if not really:
                        used.discard(nm)
            rejects = any(isinstance(x, ast.Raise) for st in l.body for x in ast.walk(st))
            for t in l.target.elts:
                if isinstance(t, ast.Name) and not t.id.startswith('_') and t.id not in used and rejects:
                    bad.append((l, t.id))
        res.add('%s :: %s :: pairs-read' % (f.module.rel, f.qualname), not bad,
                '%d loop(s) over items(), both components read' % len(loops) if not bad else
                '; '.join('line %d `for %s in %s`: `%s` is never read' % (l.lineno, src(l.target, 20), src(l.iter, 30), nm) for l, nm in bad[:4]) +
                ' -- the loop rejects when no entry is found for the key, but never compares the entry with the value of the pair '
                '((!x. x = 1 --> P x) <--> (5 = 1 --> P 5) was accepted with x -> 5)', '%s:%d' % (f.module.rel, (bad[0][0] if bad else loops[0]).lineno))
    return res


def rule_r17(repo):
    """`found = False; for c in cs: if ..: found = True; break` followed by `if not found: raise` decides for
    one element of an outer loop.  (a) the flag must be reset on every path from one outer iteration to the next
    test, or the `True` of an earlier element answers for a later one; (b) the outer loop must not be left by a
    `break` of its own, or the remaining elements are not examined at all."""
    res = RuleResult('C18.R17', 'a found-flag that decides per element is reset per element, and the loop over the elements is not left early', floor=1)
    for f in mr.verit_eval_side_functions(repo):
        if f.parent is not None:
            continue
        cfg = None
        bad = []
        n_loops = 0
        for outer in ast.walk(f.node):
            if not isinstance(outer, ast.For):
                continue
            # a top-level `if not <flag>: raise` in the body
            flags = []
            for st in outer.body:
                if isinstance(st, ast.If) and isinstance(st.test, ast.UnaryOp) and isinstance(st.test.op, ast.Not) and isinstance(st.test.operand, ast.Name) and \
                        st.body and isinstance(st.body[-1], ast.Raise):
                    flags.append((st.test.operand.id, st))
            if not flags:
                continue
            n_loops += 1
            cfg = cfg or cfg_of(f.node)
            for flag, test_stmt in flags:
                sets = [n for n in cfg.nodes if n.kind == 'stmt' and isinstance(n.ast, ast.Assign) and any(is_name(t, flag) for t in n.ast.targets)]
                trues = [n for n in sets if isinstance(n.ast.value, ast.Constant) and n.ast.value.value is True and
                         any(n.ast is x for st in outer.body for x in ast.walk(st))]
                tnode = cfg.node_for(test_stmt.test.operand) or cfg.node_for(test_stmt.test)
                inode = next((n for n in cfg.nodes if n.kind == 'iter' and n.ast is outer), None)
                if tnode is None or inode is None:
                    continue
                for a in trues:
                    others = [n for n in sets if n is not a]
                    r1 = cfg.reach_from([b for b, _l in a.succ], skip_nodes=others)
                    if inode.id in r1:
                        r2 = cfg.reach_from([b for b, l in inode.succ if l == 'loop'], skip_nodes=sets)
                        if tnode.id in r2:
                            bad.append('line %d: `%s = True` of one element reaches the test `if not %s` (line %d) of the next one without a reset' % (
                                a.lineno, flag, flag, test_stmt.lineno))
                            break
            # (b) a break that belongs to the outer loop itself
            def own_breaks(stmts):
                out = []
                for st in stmts:
                    if isinstance(st, ast.Break):
                        out.append(st)
                    elif isinstance(st, (ast.For, ast.While)):
                        out += own_breaks(st.orelse)
                    elif isinstance(st, ast.If):
                        out += own_breaks(st.body) + own_breaks(st.orelse)
                    elif isinstance(st, ast.Try):
                        out += own_breaks(st.body) + own_breaks(st.orelse) + own_breaks(st.finalbody)
                    elif isinstance(st, ast.With):
                        out += own_breaks(st.body)
                return out
            for b in own_breaks(outer.body):
                bad.append('line %d: `break` leaves the loop over the elements (line %d): the elements after this one are never tested' % (b.lineno, outer.lineno))
        if not n_loops:
            continue
        res.add('%s :: %s :: flag-per-element' % (f.module.rel, f.qualname), not bad,
                '%d per-element decision loop(s)' % n_loops if not bad else '; '.join(bad[:4]), f.loc)
    return res


def _negative_literal(f, e):
    """e denotes the argument of a negated literal of the clause (args[k] = ~e, or a disjunct ~e of args[k]):
    the quantified formula occurs negatively, and using its body for all values of the variables is sound"""
    from .c18_shape import Paths
    ps = f.params()
    paths = Paths(f.node, ps[1:3])
    canon = paths.canon(e)
    tested = {}
    for c in ast.walk(f.node):
        if isinstance(c, ast.Call) and isinstance(c.func, ast.Attribute) and c.func.attr in ('is_not', 'is_disj') and not c.args:
            for q in paths.canon(c.func.value):
                tested.setdefault(q, set()).add(c.func.attr)
    import re

    def negative(p):
        if not p.endswith('.arg'):
            return False
        q = p[:-len('.arg')]
        if 'is_not' not in tested.get(q, ()):
            return False
        # q is args[k], or a disjunct below it
        while not re.match(r'^%s\[(\d+|\*)\]$' % re.escape(ps[1]), q):
            m = re.match(r'^(.*)\.(arg1|arg)$', q)
            if not m or 'is_disj' not in tested.get(m.group(1), ()):
                return False
            q = m.group(1)
        return True
    return bool(canon) and all(negative(p) for p in canon)


def rule_r18(repo):
    """An evaluator that strips the quantifiers of a literal and goes on with the body alone has dropped the
    bound variables: the body may mention them, and comparing it with an unquantified term then identifies a
    bound variable with a free one of the same name ((!x. x > 0) <--> x > 0).  The list of stripped variables
    must be examined (occurrence test, comparison with the other side) unless the body is only compared with a
    constant."""
    res = RuleResult('C18.R18', 'the variables of stripped quantifiers are examined before the body is used alone', floor=1)
    STRIP = ('strip_quant', 'strip_forall', 'strip_exists')
    for mi in macro_index(repo):
        if mi.eval is None or not mr.verit_macros(mi):
            continue
        f = mi.eval
        sites = [a for a in ast.walk(f.node) if isinstance(a, ast.Assign) and isinstance(a.value, ast.Call) and call_attr(a.value) in STRIP and
                 isinstance(a.targets[0], (ast.Tuple, ast.List)) and len(a.targets[0].elts) == 2]
        if not sites:
            continue
        bad = []
        for a in sites:
            vs, body = a.targets[0].elts
            if not isinstance(vs, ast.Name) or not isinstance(body, ast.Name):
                continue
            loads = [x for x in ast.walk(f.node) if isinstance(x, ast.Name) and x.id == vs.id and isinstance(x.ctx, ast.Load)]
            if loads and not vs.id.startswith('_'):
                continue
            if _negative_literal(f, a.value.func.value):
                continue      # ~(!xs. body) as a literal of the clause: dropping the quantifiers is instantiation
            # the body is only compared with the constants true / false
            uses = [x for x in ast.walk(f.node) if isinstance(x, ast.Compare) and any(is_name(y, body.id) for y in [x.left] + x.comparators)]
            only_const = uses and all(all(is_name(y, body.id) or (isinstance(y, ast.Name) and y.id in ('true', 'false')) or
                                          (isinstance(y, (ast.Tuple, ast.List)) and all(isinstance(z, ast.Name) and z.id in ('true', 'false') for z in y.elts))
                                          for y in [x.left] + x.comparators) for x in uses)
            other = [x for x in ast.walk(f.node) if isinstance(x, ast.Name) and x.id == body.id and isinstance(x.ctx, ast.Load)]
            if only_const and len(other) == len(uses):
                continue
            bad.append(a)
        res.add('%s :: eval :: stripped-variables-examined' % mi.key, not bad,
                '%d strip site(s); the variable lists are read' % len(sites) if not bad else
                'line %d `%s`: the list of bound variables is thrown away and the body is used alone - a bound variable that occurs in the body '
                'is identified with a free variable of the same name ((!x. x > 0) <--> x > 0 was accepted)' % (bad[0].lineno, src(bad[0], 50)),
                '%s:%d' % (f.module.rel, (bad[0] if bad else sites[0]).lineno))
    return res


R19_FLOOR_SITES = 70


def rule_r19(repo):
    """Pattern-checking evaluators (sa/propeval.py): for every accept site whose conditions are tests of
    connectives / arithmetic operators and comparisons of parts, the implication premises --> clause must hold
    for every truth value (and every small integer) of the parts the conditions leave open."""
    from ..propeval import PropEval, counterexample
    from ..truthtable import show
    res = RuleResult('C18.R19', 'an evaluator that accepts by pattern accepts only clauses that follow from the premises for every value of the unconstrained parts', floor=45)
    sites = analysed = 0
    for mi in macro_index(repo):
        if mi.eval is None or not mr.verit_macros(mi):
            continue
        f = mi.eval
        ps = f.params()
        if len(ps) < 2:
            continue
        pe = PropEval(f.node, ps[1:3]).run()
        n_acc = [r for r in ast.walk(f.node) if isinstance(r, ast.Return) and pe.is_accept(r)]
        sites += len(n_acc)
        by_line = {}
        for ln, case, cl, prem in pe.accepts:
            by_line.setdefault(ln, []).append((case, cl, prem))
        analysed += len(by_line)
        for ln, cases in sorted(by_line.items()):
            bad = None
            for case, cl, prem in cases:
                ce = counterexample(cl, prem)
                if ce is not None and ce not in ('too-many', 'ill-typed'):
                    bad = (case, cl, prem, ce)
                    break
            key = '%s :: eval :: accept@%s' % (mi.key, src(next(r for r in n_acc if r.lineno == ln).value, 40) + '#%d' % sorted(by_line).index(ln))
            if bad:
                case, cl, prem, ce = bad
                res.add(key, False, 'line %d accepts  %s |- %s  (pattern: %s), which fails for %s' % (
                    ln, ' ; '.join(show(p) for p in prem) or '(no premise)', show(cl), case.describe(),
                    ', '.join('%s=%s' % kv for kv in sorted(ce.items()))), '%s:%d' % (f.module.rel, ln))
            else:
                res.add(key, True, '%d pattern(s), each a consequence of the premises for all values of its parts' % len(cases), '%s:%d' % (f.module.rel, ln))
    res.info['accept_sites'] = sites
    res.info['accept_sites_analysed'] = analysed
    need(analysed >= R19_FLOOR_SITES, 'C18.R19: only %d accept sites could be analysed (confirmed: %d)' % (analysed, R19_FLOOR_SITES))
    return res


def converter_rule(repo, rid, targets, identity, floor):
    """sa/truthtable.py: every case of a connective converter returns the boolean function its conditions describe"""
    from ..truthtable import Evaluator, counterexample, show
    res = RuleResult(rid, 'every case of a normal-form conversion returns a term with the truth table of the case it matched', floor=floor)
    for rel, name in targets:
        from ..inline import inlined
        f = inlined(repo.func(rel, name), lambda h: h.parent is not None and h.name not in identity)[0]     # a case may be written once as a local helper
        ev = Evaluator(f.node, f.params()[0], identity).run()
        need(ev.cases, '%s: no case of %s could be analysed' % (rel, name))
        for ln, facts, pat, val in ev.cases:
            ce = counterexample(pat, val)
            ok = ce is None or ce == 'too-many'
            res.add('%s :: %s :: case(%s)' % (rel, name, facts or 'any'), ok,
                    '%s  ==  %s' % (show(pat), show(val)) if ok else
                    'line %d: for %s it returns %s, which differs at %s' % (ln, show(pat), show(val), ', '.join('%s=%s' % kv for kv in sorted(ce.items()))),
                    '%s:%d' % (rel, ln), nontrivial=pat != val)
        res.info.setdefault('not_analysed', []).extend('%s:%d %s' % (rel, ln, why) for ln, why in ev.skipped)
    return res


def rule_r20(repo):
    return converter_rule(repo, 'C18.R20', [('smt/veriT/verit_macro.py', 'get_cnf')], {'get_cnf'}, floor=8)


def rule_r21(repo):
    """Term.strip_quant strips universal and existential quantifiers alike.  What it returns for one term may be
    used when the kind does not matter (the variables do not occur); comparing what it returns for *two* terms
    equates !x. P x with ?x. P x."""
    from .c18_shape import Paths
    res = RuleResult('C18.R21', 'the kind-blind quantifier destructor is never applied to both terms of a comparison', floor=1)
    for mi in macro_index(repo):
        if mi.eval is None or not mr.verit_macros(mi):
            continue
        f = mi.eval
        calls = [c for c in ast.walk(f.node) if isinstance(c, ast.Call) and call_attr(c) == 'strip_quant' and not c.args]
        if not calls:
            continue
        paths = Paths(f.node, f.params()[1:3])
        subjects = {}
        for c in calls:
            subjects.setdefault(frozenset(paths.canon(c.func.value)) or src(c.func.value, 40), []).append(c)
        ok = len(subjects) <= 1
        res.add('%s :: eval :: kind-blind-strip' % mi.key, ok,
                'applied to one term only' if ok else
                'lines %s strip the quantifiers of %d different terms without regard to their kind and the results are compared: '
                '(!x. P x) <--> (?x. P x) was accepted' % (', '.join(str(c.lineno) for c in calls), len(subjects)),
                '%s:%d' % (f.module.rel, calls[0].lineno))
    return res


def rule_r22(repo):
    """sa/quantdist.py: gen_and / gen_or (evaluation of bfun_elim) return a term equivalent to the conjunction /
    disjunction of their arguments in every case of the arguments' quantifier shapes."""
    from ..quantdist import check_function
    res = RuleResult('C18.R22', 'moving a connective under a common quantifier keeps the meaning: & under !, | under ?, nothing else', floor=20)
    m = repo.module('smt/veriT/verit_macro.py')
    spec = {'gen_and': 'and', 'gen_or': 'or'}
    for fn, kind in sorted(spec.items()):
        need(fn in m.functions, 'smt/veriT/verit_macro.py: %s not found' % fn)
        seen = set()
        for text, ok, detail in check_function(m.functions, fn, kind, spec):
            if text in seen:
                text += ' (heads differ)'
            seen.add(text)
            if ok is None:
                res.info.setdefault('not_analysed', []).append('%s [%s]: %s' % (fn, text, detail))
                continue
            res.add('smt/veriT/verit_macro.py :: %s :: case(%s)' % (fn, text), ok,
                    detail if ok else detail + ' -- (?x. A) & (?x. B) is not ?x. A & B: bfun_elim accepted ?x. p false x & p true x from !b. ?x. p b x',
                    m.functions[fn].loc, nontrivial='same variable' in text)
    return res


def rule_r23(repo):
    """A step of a veriT proof is checked against what the proof *says about that step*: its clause, its premises, its
    arguments and the context recorded with it by the parser (`step.cur_ctx`; empty outside every subproof).  The
    reconstruction object also carries running state - fields that are rebound while the steps go by (the context /
    identifier of the last anchor seen).  That state describes where the traversal has been, not the step: nothing of it
    may flow into the arguments or premises a rule is called with.  (`step.cur_ctx or self.ctx` reads "no context" where
    the step has the empty context, and a refl step behind a closed subproof is judged under that subproof's bindings.)"""
    from ..inline import inlined
    from ..flow import flow_of
    res = RuleResult('C18.R23', 'the arguments and premises of a reconstructed step come from the step, never from the running state of the traversal', floor=4)
    cls = repo.cls('smt/veriT/proof_rec.py', 'ProofReconstruction')
    running = set()
    for name, f in cls.methods.items():
        if name == '__init__':
            continue
        for n in ast.walk(f.node):
            if isinstance(n, (ast.Assign, ast.AugAssign)):
                for t in (n.targets if isinstance(n, ast.Assign) else [n.target]):
                    if isinstance(t, ast.Attribute) and is_name(t.value, 'self'):
                        running.add(t.attr)
    need(running, 'ProofReconstruction: no field is rebound outside __init__ (running state not found)')
    f = need(cls.methods.get('validate_step'), 'ProofReconstruction.validate_step not found')

    def reads_state(h):
        return h.cls is cls and h.name != 'validate_step' and any(
            isinstance(a, ast.Attribute) and is_name(a.value, 'self') and a.attr in running and isinstance(a.ctx, ast.Load) for a in ast.walk(h.node))
    g = inlined(f, reads_state)[0]
    flow = flow_of(g.node)
    calls = [c for c in ast.walk(g.node) if isinstance(c, ast.Call) and call_name(c) == 'ProofTerm' and len(c.args) >= 3]
    need(calls, 'validate_step: construction of the step\'s proof term not found')
    for k, c in enumerate(sorted(calls, key=lambda c: c.lineno)):
        for what, e in (('arguments@%d' % k, c.args[1]), ('premises@%d' % k, c.args[2])):
            roots = flow.resolve(e)
            bad = sorted(r for r in roots if any(r == 'self.' + a or r.startswith('self.' + a + '.') or r.startswith('self.' + a + '[') or r.startswith('self.' + a + '{')
                                                   for a in running))
            res.add('smt/veriT/proof_rec.py :: ProofReconstruction.validate_step :: %s-from-the-step' % what, not bad,
                    'derived from the step and from tables indexed by its identifiers' if not bad else
                    'the %s of a step can come from `%s`, which is rebound as the traversal passes anchors: a step outside every subproof is checked '
                    'under the context of the last subproof that was closed' % (what, bad[0]), '%s:%d' % ('smt/veriT/proof_rec.py', c.lineno))
    res.info['running_state'] = sorted(running)
    return res

VM = 'smt/veriT/verit_macro.py'


def rule_r24(repo):
    """A helper that decides whether `lhs <--> rhs` is an instance of a simplification law walks over both sides in
    parallel (`l_P, l_then, l_else = ite1.args; r_P, r_then, r_else = ite2.args`).  The law determines the right side
    completely: on every path that answers True, each named part of the *second* argument has been compared with
    something (it occurs in a test that has to hold on the way).  A part that is unpacked and never constrained can be
    anything - `ite P (ite P x y) z <--> ite Q x z` was accepted for any Q.  (Parts of the first argument may be free: the
    law `ite true x y <--> x` says nothing about y; such parts are conventionally unpacked as `_`.)"""
    res = RuleResult('C18.R24', 'on every accepting path of a two-sided pattern helper each named part of the right-hand side is constrained', floor=1)
    for f in mr.verit_eval_side_functions(repo):
        ps = [p_ for p_ in f.params() if p_ != 'self']
        if len(ps) < 2:
            continue
        rets = [r for r in ast.walk(f.node) if isinstance(r, ast.Return) and isinstance(r.value, ast.Constant) and r.value.value is True]
        if not rets:
            continue
        unp = {}
        for n in ast.walk(f.node):
            if isinstance(n, ast.Assign) and isinstance(n.targets[0], ast.Tuple) and isinstance(n.value, ast.Attribute) and n.value.attr == 'args' and \
                    isinstance(n.value.value, ast.Name) and n.value.value.id in ps:
                unp.setdefault(n.value.value.id, []).append(n)
        if len(unp) < 2:
            continue
        second = ps[1]
        cfg = cfg_of(f.node)
        for i, r in enumerate(sorted(rets, key=lambda r: r.lineno)):
            rn = cfg.node_for(r)
            read = set()
            for t in cfg.test_nodes():
                if cfg.path_avoiding(rn, skip_edges={(t.id, 'true')}) is None:
                    read |= {x.id for x in ast.walk(t.ast) if isinstance(x, ast.Name)}
            miss = []
            for a in unp.get(second, []):
                an = cfg.node_for(a)
                if an is None or not cfg.dominates(an, rn):
                    continue
                miss += [e.id for e in a.targets[0].elts if isinstance(e, ast.Name) and e.id != '_' and e.id not in read]
            res.add('%s :: %s :: accepts#%d' % (f.module.rel, f.qualname, i + 1), not miss,
                    'every named part of `%s` occurs in a condition of this answer' % second if not miss else
                    'line %d answers True without any condition on %s (unpacked from `%s`): that part of the right-hand side can be anything, '
                    'e.g. ite P (ite P x y) z <--> ite Q x z for any Q' % (r.lineno, ', '.join(miss), second), '%s:%d' % (f.module.rel, r.lineno))
    return res


def rule_r25(repo):
    """The bind rule renames bound variables: (Q x. phi) <--> (Q y. phi').  Its side condition - y is not free in the
    left-hand formula - is what keeps the renaming from capturing: (!x. x <= y) <--> (!y. y <= y) relates a false formula
    to a true one.  In the evaluation every new variable (the elements of the list taken from the right-hand side) passes
    a test of occurrence in the left-hand side that raises, before the step is accepted."""
    res = RuleResult('C18.R25', 'a step that renames bound variables tests that the new variables do not occur free in the formula on the left', floor=1)
    cls = [c for c in repo.module(VM).classes.values() if c.name == 'BindMacro']
    need(cls, 'BindMacro not found')
    f = cls[0].methods.get('eval')
    cfg = cfg_of(f.node)
    flow = flow_of(f.node)
    accepts = [r for r in cfg.return_nodes() if isinstance(r.ast.value, ast.Call) and call_name(r.ast.value) == 'Thm']
    need(accepts, 'BindMacro.eval: accepting return not found')
    ok = False
    rlists = set()
    for lp in ast.walk(f.node):
        if not isinstance(lp, ast.For):
            continue
        # the new variables: the loop variables that are compared with what the context maps an old variable to (`ctx[lv.name] != rv`)
        tall = {x.id for x in ast.walk(lp.target) if isinstance(x, ast.Name)}
        tnames = set()
        for c in ast.walk(lp):
            cp = compare_parts(c) if isinstance(c, ast.Compare) else None
            if cp and cp[0] in (ast.Eq, ast.NotEq):
                for x, y in ((cp[1], cp[2]), (cp[2], cp[1])):
                    if isinstance(x, ast.Subscript) and isinstance(x.value, ast.Name) and isinstance(y, ast.Name) and y.id in tall:
                        tnames.add(y.id)
        if not tnames:
            continue
        rlists |= tnames
        head = [n for n in cfg.nodes if n.kind == 'iter' and n.ast is lp]
        for t in cfg.test_nodes():
            if not any(t.ast is x for st in lp.body for x in ast.walk(st)):
                continue
            e = t.ast
            occ = isinstance(e, ast.Call) and call_attr(e) in ('occurs_var', 'has_vars', 'has_var') and e.args and \
                {x.id for x in ast.walk(e.args[0]) if isinstance(x, ast.Name)} & tnames
            cp = compare_parts(e)
            mem = cp and cp[0] is ast.In and {x.id for x in ast.walk(cp[1]) if isinstance(x, ast.Name)} & tnames and \
                isinstance(cp[2], ast.Call) and call_attr(cp[2]) in ('get_vars',)
            if not (occ or mem):
                continue
            subj = e.func.value if occ else cp[2].func.value
            about_lhs = any(p_.startswith('goal.lhs') or p_.startswith('goal.args') or p_ == 'lhs' or p_.startswith('args') for p_ in flow.resolve(subj))
            raises = not any(a.id in cfg.reach_from([b for b, l in t.succ if l == 'true']) for a in accepts)
            before = head and all(cfg.path_avoiding(a, skip_nodes=head) is None for a in accepts)
            if about_lhs and raises and before:
                ok = True
    need(rlists, 'BindMacro.eval: the loop that relates old and new bound variables through the context not found')
    res.add('%s :: BindMacro.eval :: new-variables-not-free-in-lhs' % VM, ok,
            'each variable of %s is tested for occurrence in the left-hand side before the step is accepted' % '/'.join(sorted(rlists)) if ok else
            'the variables that the right-hand side binds (%s) are never tested for occurrence in the left-hand side: the renaming can capture, '
            'and (!x. x <= y) <--> (!y. y <= y) is evaluated to a theorem' % '/'.join(sorted(rlists)), f.loc)
    return res

def rule_r26(repo):
    """Several rules walk over the argument lists of two applications in parallel (`zip(lhs.strip_comb()[1], rhs.strip_comb()[1])`):
    position i of one side goes with position i of the other, and every position has to be accounted for.  The pairs must stay a
    *sequence*.  Filed in a dictionary under one component (`dict(zip(A, B))`, `{a: b for a, b in zip(A, B)}`) two positions
    with the same left argument and different right ones become one entry, and the position that was dropped is never
    justified: ~(x = z) | f x x = f y z is then an instance of eq_congruent."""
    res = RuleResult('C18.R26', 'argument positions walked over in parallel are kept as a sequence of pairs, never filed under one component', floor=6)

    def arg_list(e):
        t = src(e, 200)
        return 'strip_comb()[1]' in t or t.endswith('.args')
    for f in mr.verit_eval_side_functions(repo):
        flow = None
        for z in ast.walk(f.node):
            if not (isinstance(z, ast.Call) and is_name(z.func, 'zip') and len(z.args) == 2):
                continue
            flow = flow or flow_of(f.node)
            a, b = flow.inline(z.args[0]), flow.inline(z.args[1])
            if not (arg_list(a) and arg_list(b)):
                continue
            # what the pairs are put into
            bad = None
            for n in ast.walk(f.node):
                if isinstance(n, ast.Call) and is_name(n.func, 'dict') and n.args and any(x is z for x in ast.walk(n.args[0])):
                    bad = n
                if isinstance(n, ast.DictComp) and any(x is z for g in n.generators for x in ast.walk(g.iter)):
                    bad = n
            res.add('%s :: %s :: parallel-arguments@%d' % (f.module.rel, f.qualname, z.lineno - f.node.lineno), bad is None,
                    'the pairs are used as a sequence' if bad is None else
                    'line %d files the argument pairs in a dictionary (`%s`): two positions with the same first argument and different partners become one, '
                    'the dropped position is never justified - ~(x = z) | f x x = f y z is accepted' % (bad.lineno, src(bad, 70)),
                    '%s:%d' % (f.module.rel, z.lineno))
    return res


def rules(repo):
    r1 = mr.zip_rule(repo, 'C18.R1', mr.verit_eval_side_functions(repo), floor=9)
    r2 = mr.hyps_rule(repo, 'C18.R2', mr.verit_macros, floor=80)
    return [r1, r2, rule_r3(repo), rule_r4(repo), rule_r5(repo), rule_r6(repo), rule_r7(repo), rule_r8(repo), rule_r9(repo), rule_r10(repo), rule_r11(repo), mr.expansion_uses_rule(repo, 'C18.R12', mr.verit_macros, floor=15), rule_r13(repo), rule_r14(repo),
            rule_r15(repo), rule_r16(repo), rule_r17(repo), rule_r18(repo), rule_r19(repo), rule_r20(repo), rule_r21(repo), rule_r22(repo), rule_r23(repo), rule_r24(repo), rule_r25(repo), rule_r26(repo)]
