"""C18 - veriT step evaluation: truncating comparisons, hypotheses of premises, no unconditional acceptance.

smt/veriT cannot be imported in the test environment (the PyPI package `smt` shadows it), so no baseline
test runs this code; the source-level analysis is the only check that sees it."""
import ast

from ..core import RuleResult, need
from ..cfg import cfg_of
from ..flow import flow_of, path_base
from ..astutil import src, call_name, call_attr, returns_of, walk_no_nested, is_name, compare_parts
from ..macros import macro_index
from . import macro_rules as mr

NOT_DECIDED = ('logical validity of each of the ~90 Alethe rule shapes (needs a semantic oracle); the LA/LIA '
               'coefficient arithmetic of la_generic (numerical)')
ASSUMPTIONS = ['Thm(prop, *hyps) builds hyps |- prop',
               'helper functions that raise VeriTException reject the step']


def rule_r3(repo):
    res = RuleResult('C18.R3', 'no evaluation accepts a clause taken from its arguments without any test or rejecting helper on the way', floor=70)
    for mi in macro_index(repo):
        if mi.eval is None or not mr.verit_macros(mi):
            continue
        f = mi.eval
        cfg = cfg_of(f.node)
        flow = flow_of(f.node)
        tests = [n for n in cfg.nodes if n.kind in ('test', 'iter')]
        params = f.params()
        argp = params[1] if len(params) > 1 else None
        for ret in returns_of(f.node):
            if not (isinstance(ret.value, ast.Call) and call_name(ret.value) == 'Thm' and ret.value.args):
                continue
            rn = cfg.node_for(ret)
            path = cfg.path_avoiding(rn, skip_nodes=tests)
            ok = True
            why = 'acceptance depends on at least one test'
            if path is not None:
                prop = ret.value.args[0]
                # a proposition *computed* by the rule (normal form, constructed equation) is not a claim
                claimed = isinstance(prop, (ast.Name, ast.Subscript, ast.Attribute)) or \
                    (isinstance(prop, ast.Call) and call_name(prop) in ('Or', 'And') and
                     all(isinstance(a, (ast.Starred, ast.Name, ast.Subscript)) for a in prop.args))
                roots = flow.resolve(prop)
                from_args = argp is not None and any(path_base(p) == argp for p in roots)
                rejecting_helper = False
                for n in path:
                    if n.kind != 'stmt':
                        continue
                    for c in ast.walk(n.ast):
                        if isinstance(c, ast.Call):
                            for t in repo.resolve_call(f, c):
                                # helpers of the reconstruction itself (kernel constructors such as Thm / Or
                                # raise only on ill-formed input and do not check the step)
                                if t.module.rel.startswith('smt/veriT/') and \
                                        any(isinstance(x, (ast.Raise, ast.Assert)) for x in ast.walk(t.node)):
                                    rejecting_helper = True
                if claimed and from_args and not rejecting_helper:
                    ok = False
                    why = 'return at line %d hands back the clause given in the arguments with no test and no rejecting helper on the path' % ret.lineno
                else:
                    why = 'straight-line, but the proposition is computed by the rule or a helper can reject'
            res.add('%s :: eval :: return@%s' % (mi.key, src(ret.value.args[0], 40)), ok, why, '%s:%d' % (f.module.rel, ret.lineno))
    return res


# confirmed exceptions for R4: (function, construct text) -> reason
R4_EXEMPT = {
    ('analyze_args', 'integer.int_eval(coeff.arg1) / integer.int_eval(coeff.arg)'):
        'the Farkas coefficients supplied with an la_generic step are only multipliers: any values are sound as long as the '
        'combination is checked exactly afterwards, so a rounding error here can only make a valid step fail',
    ('analyze_args', 'lcm * d / math.gcd(lcm, d)'):
        'same: least common denominator of the supplied coefficients',
}


def rule_r4(repo):
    from .c05 import inexact_sources
    res = RuleResult('C18.R4', 'the arithmetic evaluators of the reconstruction compute with integers and fractions only', floor=2)
    n_funcs = 0
    for f in mr.verit_eval_side_functions(repo):
        if f.module.rel != 'smt/veriT/la_generic.py':
            continue
        n_funcs += 1
        for n in ast.walk(f.node):
            pass
        found = inexact_sources(repo, f)
        # locate the construct text for the exception table
        for ln, what in found:
            text = None
            for x in walk_no_nested(f.node, include_root=False):
                if getattr(x, 'lineno', None) == ln and isinstance(x, ast.BinOp) and isinstance(x.op, (ast.Div, ast.Pow)):
                    text = src(x, 200)
                    break
            ex = R4_EXEMPT.get((f.qualname, text))
            res.add('smt/veriT/la_generic.py :: %s :: inexact(%s)' % (f.qualname, text or what), ex is not None,
                    'confirmed exception: ' + ex if ex else
                    '%s: floating point in the rounding / combination of linear inequalities (e.g. int(c / k) rounds toward zero where '
                    'c // k rounds down) lets an unsound step be accepted' % what, 'smt/veriT/la_generic.py:%d' % ln,
                    nontrivial=ex is None)
    need(n_funcs >= 10, 'la_generic.py: evaluation-side functions not found')
    res.info['functions_scanned'] = n_funcs
    return res


def rule_r5(repo):
    """When an evaluator keeps only a suffix `E[k:]` of a list taken from the goal or a premise, the
    components it cuts off must be examined somewhere (E[0], E[:k], or E as a whole); otherwise they can
    be anything."""
    res = RuleResult('C18.R5', 'components cut off from a goal-derived list by a suffix slice are examined elsewhere in the evaluator', floor=8)
    for mi in macro_index(repo):
        if mi.eval is None or not mr.verit_macros(mi):
            continue
        f = mi.eval
        flow = flow_of(f.node)
        params = f.params()[1:3]
        parent = {}
        for n in ast.walk(f.node):
            for ch in ast.iter_child_nodes(n):
                parent[id(ch)] = n
        for x in ast.walk(f.node):
            if not (isinstance(x, ast.Subscript) and isinstance(x.slice, ast.Slice) and x.slice.upper is None and x.slice.step is None and
                    isinstance(x.slice.lower, ast.Constant) and isinstance(x.slice.lower.value, int) and x.slice.lower.value >= 1):
                continue
            if not any(path_base(p) in params for p in flow.resolve(x.value)):
                continue
            k = x.slice.lower.value
            base = src(x.value, 300)
            # the same list under other names: `conjs = rhs.strip_conj()`
            aliases = {base}
            if isinstance(x.value, ast.Name):
                aliases |= {src(r, 300) for kd, r in flow.defs.get(x.value.id, []) if kd == 'value'}
            for nm, defs in flow.defs.items():
                if any(kd == 'value' and src(r, 300) in aliases for kd, r in defs):
                    aliases.add(nm)
            examined = False
            for y in ast.walk(f.node):
                if not isinstance(y, (ast.Name, ast.Attribute, ast.Call, ast.Subscript)) or src(y, 300) not in aliases:
                    continue
                if isinstance(y, ast.Name) and isinstance(y.ctx, ast.Store):
                    continue
                par = parent.get(id(y))
                if isinstance(par, ast.Subscript) and par.value is y:
                    sl = par.slice
                    suffix = isinstance(sl, ast.Slice) and sl.upper is None and isinstance(sl.lower, ast.Constant) and \
                        isinstance(sl.lower.value, int) and sl.lower.value >= k
                    if not suffix:
                        examined = True       # an index or a prefix slice
                    continue
                if isinstance(par, ast.Assign) and par.value is y:
                    continue                  # the definition of an alias
                if isinstance(par, ast.Call) and isinstance(par.func, ast.Name) and par.func.id == 'len':
                    continue                  # only its length
                examined = True               # the whole list is used
            res.add('%s :: eval :: suffix(%s[%d:])' % (mi.key, src(x.value, 40), k), examined,
                    'the first %d component(s) are read elsewhere' % k if examined else
                    'only `%s` is used; the first %d component(s) of that list are never looked at, so the step is accepted whatever they are' % (
                        src(x, 50), k), '%s:%d' % (f.module.rel, x.lineno))
    return res


def rule_r6(repo):
    """What an evaluator collects from its premises must be consulted: a container that only ever
    receives values (add / append / subscript store) and is never read means the premises it was filled
    from play no part in the decision."""
    res = RuleResult('C18.R6', 'a container an evaluator fills from its premises or arguments is consulted before the step is accepted', floor=10)
    MUT = {'add', 'append', 'extend', 'update', 'insert'}
    for mi in macro_index(repo):
        if mi.eval is None or not mr.verit_macros(mi):
            continue
        f = mi.eval
        flow = flow_of(f.node)
        params = f.params()[1:3]
        recv_ids = set()
        filled = {}
        for c in ast.walk(f.node):
            if isinstance(c, ast.Call) and isinstance(c.func, ast.Attribute) and c.func.attr in MUT and isinstance(c.func.value, ast.Name):
                recv_ids.add(id(c.func.value))
                filled.setdefault(c.func.value.id, []).extend(c.args)
            if isinstance(c, ast.Assign):
                for t in c.targets:
                    if isinstance(t, ast.Subscript) and isinstance(t.value, ast.Name):
                        recv_ids.add(id(t.value))
                        filled.setdefault(t.value.id, []).append(c.value)
        reads = {}
        for n in ast.walk(f.node):
            if isinstance(n, ast.Name) and isinstance(n.ctx, ast.Load) and id(n) not in recv_ids:
                reads[n.id] = reads.get(n.id, 0) + 1
        for name, vals in sorted(filled.items()):
            if name in f.params() or not flow.is_local(name):
                continue
            from_input = any(path_base(p) in params for v in vals for p in flow.resolve(v))
            if not from_input:
                continue
            ok = reads.get(name, 0) > 0
            res.add('%s :: eval :: container(%s)' % (mi.key, name), ok,
                    'read %d time(s)' % reads.get(name, 0) if ok else
                    '`%s` is filled from the premises / arguments and never read: what was collected does not influence acceptance' % name,
                    f.loc)
    return res


def rule_r7(repo):
    """Whether a step is accepted must depend on the step alone.  A container that survives the call - a
    mutable default argument that the function (or a helper nested in it) fills, or a module-level /
    class-level table an evaluation-side function both fills and consults - carries facts established
    under the premises and context of one step over to the next."""
    from .. import persist
    res = RuleResult('C18.R7', 'no evaluation-side function of the reconstruction fills a container that outlives the call and is consulted later', floor=150)
    n = 0
    for f in mr.verit_eval_side_functions(repo):
        n += 1
        if f.parent is not None:
            continue          # nested helpers are covered through the function that contains them
        key = '%s :: %s :: call-local-state' % (f.module.rel, f.qualname)
        bad = []
        for p, d in persist.mutable_defaults(f.node).items():
            if persist.rebinds(f.node, p):
                continue
            muts = persist.mutations_of(f.node, lambda e, p=p: isinstance(e, ast.Name) and e.id == p)
            if muts:
                bad.append('default value `%s=%s` is one object for all calls and is modified at line %d (%s)' % (p, src(d, 20), muts[0][0], muts[0][1]))
        conts = set(persist.module_containers(f.module))
        if f.cls is not None:
            conts |= {'self.' + c for c in persist.class_containers(f.cls.node)} | {'%s.%s' % (f.cls.name, c) for c in persist.class_containers(f.cls.node)}
        locals_ = {a.arg for a in ast.walk(f.node) if isinstance(a, ast.arg)} | \
            {t.id for x in ast.walk(f.node) if isinstance(x, ast.Assign) for t in x.targets if isinstance(t, ast.Name)}
        for c in sorted(conts):
            if c in locals_:
                continue
            muts = persist.mutations_of(f.node, lambda e, c=c: src(e) == c)
            if muts:
                bad.append('module / class level `%s` is modified at line %d (%s)' % (c, muts[0][0], muts[0][1]))
        res.add(key, not bad, 'all containers it fills are created in the call' if not bad else
                '; '.join(bad) + ' -- what one step established (under its own premises and context) is still there when the next step is evaluated',
                f.loc, nontrivial=bool(bad))
    res.info['functions_scanned'] = n
    return res


def rule_r8(repo):
    """An evaluator that walks down a right-nested conjunction / disjunction by hand
    (`while c.is_conj(): ...; c = c.arg`) leaves the loop with the last component in `c`.  That component
    must be looked at: after the loop (or in its else clause), or in each round as `c.arg` in a test that
    decides acceptance.  Otherwise the last conjunct can be anything - and a term that is no conjunction
    at all passes with nothing compared."""
    res = RuleResult('C18.R8', 'a hand-written walk over a nested connective accounts for the component it stops at', floor=3)
    for f in mr.verit_eval_side_functions(repo):
        own = list(walk_no_nested(f.node, include_root=False))
        for w in own:
            if not isinstance(w, ast.While):
                continue
            tnames = {x.id for x in ast.walk(w.test) if isinstance(x, ast.Name)}
            adv = [st for st in ast.walk(w) if isinstance(st, ast.Assign) and len(st.targets) == 1 and isinstance(st.targets[0], ast.Name) and
                   isinstance(st.value, ast.Attribute) and is_name(st.value.value, st.targets[0].id) and st.targets[0].id in tnames]
            for st in adv:
                v, attr = st.targets[0].id, st.value.attr
                after = [x for x in own if isinstance(x, ast.Name) and x.id == v and isinstance(x.ctx, ast.Load) and x.lineno > (w.end_lineno or 0)]
                orelse = [x for o in w.orelse for x in ast.walk(o) if isinstance(x, ast.Name) and x.id == v]
                deciding = False
                for i in ast.walk(w):
                    if isinstance(i, ast.If) and any(isinstance(a, ast.Attribute) and a.attr == attr and is_name(a.value, v) for a in ast.walk(i.test)) and \
                            any(isinstance(r, ast.Return) for b in i.body for r in ast.walk(b)):
                        deciding = True
                ok = bool(after or orelse or deciding)
                res.add('%s :: %s :: walk(%s = %s.%s)' % (f.module.rel, f.qualname, v, v, attr), ok,
                        'the component the walk stops at is examined' if ok else
                        'after `while %s` nothing reads `%s`: the last component is never compared, and a term of another shape passes with '
                        'nothing compared at all (and_neg accepted the one-literal clause `false`)' % (src(w.test, 40), v), '%s:%d' % (f.module.rel, w.lineno))
    return res


# confirmed exceptions for R9: (macro name, base text) -> reason
R9_EXEMPT = {
    ('verit_la_generic', 'dis_eq'):
        'only the type of the part is read (`dis_eq.arg.get_type()`) to choose between integer and real arithmetic; every literal is '
        'classified by is_less / is_less_eq / is_equals tests in step 1, which reject any other shape',
    ('verit_la_generic', 'dis_eq_bd'):
        'same: `dis_eq_bd.arg.get_type()` precedes the is_less / is_less_eq tests of the same branch, which raise for any other shape',
}


def shape_sites(repo, mi):
    """(key, ok, why, loc) for every term of the premises / arguments that the evaluator takes apart"""
    from .c18_shape import ShapeAnalysis
    f = mi.eval
    params = f.params()
    sa_ = ShapeAnalysis(f.node, params[1:3])
    groups = {}
    for a, base, canon in sa_.sites():
        groups.setdefault(src(base, 200), []).append((a, canon))
    out = []
    for base_txt, sites in sorted(groups.items()):
        bad = []
        for a, canon in sites:
            r = sa_.check(a, canon)
            if r is False:
                bad.append(a)
        key = '%s :: eval :: shape-of(%s)' % (mi.key, base_txt[:60])
        ex = R9_EXEMPT.get((mi.names[0], base_txt))
        if bad and ex:
            out.append((key, True, 'confirmed exception: ' + ex, '%s:%d' % (f.module.rel, bad[0].lineno)))
            continue
        out.append((key, not bad,
                    'its head connective (or the whole term) is tested before it is taken apart' if not bad else
                    '`%s.%s` (line %d) is read without any test of what `%s` is: a term with another connective in the same positions '
                    '(a | b for a <--> b, p & q for ~q ...) is taken apart the same way and the step is accepted' % (
                        base_txt[:40], bad[0].attr, bad[0].lineno, base_txt[:40]),
                    '%s:%d' % (f.module.rel, (bad[0] if bad else sites[0][0]).lineno)))
    return out


def rule_r9(repo):
    """An evaluator reads the parts of a premise or of a goal literal by position (`.arg`, `.arg1`,
    `.args`).  Positions mean something only under a known head connective: the evaluator must have tested
    it (is_not(), is_conj(), is_equals(), is_comb(..)) or compared the whole term with an expected term."""
    res = RuleResult('C18.R9', 'a premise or goal literal is taken apart only after its head connective was tested', floor=80)
    for mi in macro_index(repo):
        if mi.eval is None or not mr.verit_macros(mi):
            continue
        for key, ok, why, loc in shape_sites(repo, mi):
            res.add(key, ok, why, loc)
    return res


def rule_r11(repo):
    """A copy-and-paste slip with an exact signature: two parts of the goal are unpacked together
    (`o1, o2 = rhs.arg.args`), one of them is compared twice in the same condition (`o2 == p1 and ... and
    p1 == o2`) and the other is never read.  The unread part can then be anything."""
    res = RuleResult('C18.R11', 'of two goal parts unpacked together, none is left unread while the other is compared twice in one condition', floor=60)
    n_funcs = 0
    for f in mr.verit_eval_side_functions(repo):
        if f.parent is not None:
            continue
        n_funcs += 1
        cfg = None
        bad = []
        for b in ast.walk(f.node):
            if not (isinstance(b, ast.BoolOp) and isinstance(b.op, ast.And)):
                continue
            seen = {}
            dups = []
            for v in b.values:
                cp = compare_parts(v)
                if cp and cp[0] is ast.Eq:
                    k = frozenset((src(cp[1], 100), src(cp[2], 100)))
                    if k in seen:
                        dups.append(v)
                    seen[k] = v
            for d in dups:
                names = {x.id for x in ast.walk(d) if isinstance(x, ast.Name)}
                cfg = cfg or cfg_of(f.node)
                node = cfg.node_for(d)
                if node is None:
                    continue
                for nm in sorted(names):
                    for a in cfg.reaching_assignments(node, nm):
                        if not (a.kind == 'stmt' and isinstance(a.ast, ast.Assign) and isinstance(a.ast.targets[0], (ast.Tuple, ast.List))):
                            continue
                        sibs = [t.id for t in a.ast.targets[0].elts if isinstance(t, ast.Name) and t.id != nm and not t.id.startswith('_')]
                        for sname in sibs:
                            # is this assignment of the sibling read anywhere before it is overwritten?
                            read = False
                            for n2 in cfg.nodes:
                                if n2 is a:
                                    continue
                                for h in cfg.headers(n2):
                                    if any(isinstance(x, ast.Name) and x.id == sname and isinstance(x.ctx, ast.Load) for x in ast.walk(h)) and \
                                            a in cfg.reaching_assignments(n2, sname):
                                        read = True
                            if not read:
                                bad.append('`%s` (unpacked at line %d together with `%s`) is never read, and `%s` is tested twice at line %d' % (
                                    sname, a.lineno, nm, src(d, 30), d.lineno))
        res.add('%s :: %s :: unpacked-parts-compared' % (f.module.rel, f.qualname), not bad,
                'no duplicated comparison next to an unread part' if not bad else bad[0] +
                ': the second comparison was meant for the unread part, which is now unconstrained', f.loc, nontrivial=bool(bad))
    res.info['functions_scanned'] = n_funcs
    return res


def rule_r10(repo):
    """C04.M10 restricted to the veriT evaluators (whose expansions no baseline test runs)"""
    from .c04 import rule_m10
    return rule_m10(repo, 'C18.R10', mr.verit_macros)


def rule_r13(repo):
    """The stale-operand rule of C06.Z6 for this property's modules."""
    from .. import persist
    res = RuleResult('C18.R13', 'after two sides were swapped, the expressions they were first bound to are not used again', floor=150)
    for rel in tuple(mr.VERIT_FILES):
        m = repo.module(rel)
        for f in m.all_funcs:
            cfg = cfg_of(f.node)
            bad = persist.stale_after_swap(f.node, cfg)
            res.add('%s :: %s :: no-stale-operand' % (rel, f.qualname), not bad,
                    'no use of a swapped operand through its old expression' if not bad else
                    '`%s` (line %d) is used after `%s` (line %d), where it no longer is what `%s` stands for' % (
                        bad[0][2], bad[0][1].lineno, src(bad[0][0].ast, 40), bad[0][0].lineno, bad[0][3]), f.loc, nontrivial=bool(bad))
    return res


def rule_r14(repo):
    """Conjunction and disjunction are idempotent: comparing their operand lists as sets is right.  Products and
    sums are not: x * x is not x.  An evaluator must not compare the factors (summands) of two sides as sets,
    or a repeated factor counts once: 2 * x * x * 3 = 6 * x would be accepted."""
    res = RuleResult('C18.R14', 'factors and summands are never compared as sets', floor=2)
    ARITH = {'strip_times', 'strip_times_full', 'strip_plus', 'strip_plus_full', 'strip_mult', 'strip_add'}
    for f in mr.verit_eval_side_functions(repo):
        if f.parent is not None:
            continue
        flow = flow_of(f.node)
        arith = set()
        for nm, defs in flow.defs.items():
            for kd, rh in defs:
                if any(isinstance(c, ast.Call) and (call_attr(c) in ARITH or (call_name(c) or '').split('.')[-1] in ARITH) for c in ast.walk(rh)):
                    arith.add(nm)
        # names derived from those lists (filters, slices)
        changed = True
        while changed:
            changed = False
            for nm, defs in flow.defs.items():
                if nm in arith:
                    continue
                for kd, rh in defs:
                    if any(isinstance(x, ast.Name) and x.id in arith for x in ast.walk(rh)) and \
                            isinstance(rh, (ast.ListComp, ast.Subscript, ast.Name, ast.Call)):
                        arith.add(nm)
                        changed = True
        if not arith:
            continue
        bad = [c for c in ast.walk(f.node) if isinstance(c, ast.Call) and call_name(c) in ('set', 'frozenset') and c.args and
               any(isinstance(x, ast.Name) and x.id in arith for x in ast.walk(c.args[0]))]
        # only sets that are compared (==, <=, issubset): building a set for membership tests is fine
        cmp_bad = []
        for cmp_ in ast.walk(f.node):
            if isinstance(cmp_, ast.Compare) and any(b is x for b in bad for x in ast.walk(cmp_)):
                cmp_bad.append(cmp_)
        res.add('%s :: %s :: multiplicity-kept' % (f.module.rel, f.qualname), not cmp_bad,
                'lists of factors / summands are compared as lists' if not cmp_bad else
                '`%s` compares factors (or summands) as sets: a factor that occurs twice counts once, so 2 * x * x * 3 = 6 * x is accepted' % src(cmp_bad[0], 60),
                '%s:%d' % (f.module.rel, (cmp_bad[0].lineno if cmp_bad else f.node.lineno)))
    return res


def rules(repo):
    r1 = mr.zip_rule(repo, 'C18.R1', mr.verit_eval_side_functions(repo), floor=9)
    r2 = mr.hyps_rule(repo, 'C18.R2', mr.verit_macros, floor=80)
    return [r1, r2, rule_r3(repo), rule_r4(repo), rule_r5(repo), rule_r6(repo), rule_r7(repo), rule_r8(repo), rule_r9(repo), rule_r10(repo), rule_r11(repo), mr.expansion_uses_rule(repo, 'C18.R12', mr.verit_macros, floor=15), rule_r13(repo), rule_r14(repo)]
