"""C16 - Omega test and simplex: exact arithmetic, and the witness extension looks at every constraint.

That the procedures agree with ground truth is numerical and not decided.  One necessary condition is
visible in the code: they must compute with integers and fractions only.  Python's `/` on two ints, `float()`
and the math functions round beyond 2^53; `floor(i / g)`, `int(c / g)` and `float(v).is_integer()` then give
a wrong quotient or a wrong integrality verdict, and the procedure reports a witness that violates a
constraint (or tightens a bound it must not tighten)."""
import ast

from ..core import RuleResult, need
from ..astutil import src, call_attr, call_name, is_name, walk_no_nested, compare_parts, path_of
from ..cfg import cfg_of
from .c05 import inexact_sources

FILES = ('prover/omega.py', 'prover/simplex.py', 'prover/simplex_strict.py')

NOT_DECIDED = ('agreement of the answers with ground truth, correctness of elimination order, dark shadows, pivoting rule, '
               'termination, checker acceptance of the produced proofs (numerical / run-time)')
ASSUMPTIONS = ['int // int, int % int, Fraction arithmetic and math.gcd / floor / ceil on Fractions are exact (CPython)']

# confirmed exceptions: (file, function, construct) -> reason
O1_EXEMPT = {
    ('prover/simplex_strict.py', 'Simplex.pivotAndUpdate', 'true division `(v - self.mapping[xi]) / a` with no Fraction operand'):
        'the values of this solver are Pair objects (x + y * delta with Fraction components, asserted in Pair.__init__); '
        'Pair.__truediv__ divides both components as Fractions',
}


def rule_o1(repo):
    res = RuleResult('C16.O1', 'the integer and rational decision procedures compute with integers and fractions only', floor=120)
    n = 0
    for rel in FILES:
        m = repo.module(rel)
        for f in m.all_funcs:
            n += 1
            found = inexact_sources(repo, f)
            bad = []
            for ln, what in found:
                ex = O1_EXEMPT.get((rel, f.qualname, what))
                if ex is None:
                    bad.append((ln, what))
            exempt = [w for _l, w in found if O1_EXEMPT.get((rel, f.qualname, w))]
            res.add('%s :: %s :: exact-arithmetic' % (rel, f.qualname), not bad,
                    ('int / Fraction arithmetic only' if not exempt else 'confirmed exception: ' + O1_EXEMPT[(rel, f.qualname, exempt[0])]) if not bad else
                    '; '.join('line %d: %s' % b for b in bad[:4]) + ' -- beyond 2^53 the result is rounded: the quotient (or the integrality '
                    'verdict) is wrong and the procedure reports a witness that violates a constraint', '%s:%d' % (rel, bad[0][0] if bad else f.node.lineno),
                    nontrivial=bool(found))
    res.info['functions_scanned'] = n
    return res


def rule_o2(repo):
    res = RuleResult('C16.O2', 'extending a witness to an eliminated variable takes every constraint on that variable into account, on both sides', floor=2)
    f = repo.func('prover/omega.py', 'extend_vmap')
    p = f.params()
    loops = [n for n in walk_no_nested(f.node, include_root=False) if isinstance(n, ast.For)]
    need(loops, 'extend_vmap: loop over the constraint database not found')
    whole = isinstance(loops[0].iter, ast.Call) and call_attr(loops[0].iter) in ('items', 'values') and is_name(loops[0].iter.func.value, p[0])
    signs = set()
    for n in ast.walk(f.node):
        cp = compare_parts(n) if isinstance(n, ast.Compare) else None
        if cp and isinstance(cp[2], ast.Constant) and cp[2].value == 0 and cp[0] in (ast.Lt, ast.Gt) and 'coeff' in src(cp[1]):
            signs.add(cp[0].__name__)
    ok = whole and signs == {'Lt', 'Gt'}
    res.add('prover/omega.py :: extend_vmap :: all-constraints-both-signs', ok,
            'loops over the whole database; negative coefficients bound from above, positive ones from below' if ok else
            'not every constraint on the eliminated variable contributes a bound (database not traversed completely, or one sign of '
            'the coefficient has no case)', f.loc)
    asserts = [n for n in ast.walk(f.node) if isinstance(n, ast.Assert) and compare_parts(n.test) and compare_parts(n.test)[0] in (ast.LtE, ast.GtE)]
    store = [n for n in ast.walk(f.node) if isinstance(n, ast.Assign) and any(isinstance(t, ast.Subscript) and is_name(t.value, p[2]) for t in n.targets)]
    ok = bool(asserts) and bool(store) and asserts[0].lineno < store[0].lineno
    res.add('prover/omega.py :: extend_vmap :: value-between-bounds', ok,
            'the bounds are compared before a value is chosen' if ok else 'a value is chosen without comparing the lower with the upper bound', f.loc)
    return res


def _drops_contr(repo, call, mode_of):
    """Does this call turn a contradiction into "no conclusion"?  `f(x)` with f(p) = NoConcl() if isinstance(p, Contr) else p,
    or `mode_result(m, x)` where m is known (from the enclosing `em == ..` branch) to be a mode whose case drops Contr."""
    def is_drop_expr(e, param):
        return isinstance(e, ast.IfExp) and isinstance(e.body, ast.Call) and call_name(e.body) == 'NoConcl' and \
            isinstance(e.test, ast.Call) and call_name(e.test) == 'isinstance' and len(e.test.args) == 2 and \
            is_name(e.test.args[0], param) and is_name(e.test.args[1], 'Contr') and is_name(e.orelse, param)
    name = call_name(call)
    solve = repo.func('prover/omega.py', 'solve')
    f = solve.nested.get(name) or repo.module('prover/omega.py').functions.get(name)
    if f is None:
        return False
    ps = f.params()
    rets = [r for r in ast.walk(f.node) if isinstance(r, ast.Return)]
    if len(ps) == 1:
        return len(rets) == 1 and is_drop_expr(rets[0].value, ps[0])
    if len(ps) == 2 and len(call.args) == 2 and isinstance(call.args[0], ast.Name):
        mode = mode_of(call.args[0].id)
        if mode is None:
            return False
        for n in ast.walk(f.node):
            if isinstance(n, ast.If):
                cp = compare_parts(n.test)
                if not cp or not is_name(cp[1], ps[0]):
                    continue
                hit = (cp[0] is ast.Eq and is_name(cp[2], mode)) or \
                      (cp[0] is ast.In and isinstance(cp[2], (ast.Tuple, ast.List)) and any(is_name(e, mode) for e in cp[2].elts))
                if hit:
                    r = [x for st in n.body for x in ast.walk(st) if isinstance(x, ast.Return)]
                    return len(r) == 1 and is_drop_expr(r[0].value, ps[1])
    return False


def rule_o3(repo):
    """The dark shadow is a sufficient condition for an integer solution, not a necessary one: a
    contradiction found while searching it (modes DARK / EDARK) proves nothing about the original system.
    Every result of such a sub-search that is handed on must pass through a function that turns a
    contradiction into "no conclusion"; only the exact and the real-shadow searches may report one."""
    res = RuleResult('C16.O3', 'a contradiction found in a dark-shadow search is never handed on as a contradiction of the system', floor=5)
    f = repo.func('prover/omega.py', 'solve')
    mode_param = f.params()[0]
    parent = {}
    for n in ast.walk(f.node):
        for ch in ast.iter_child_nodes(n):
            parent[id(ch)] = n

    def mode_at(node):
        """the value of the mode parameter established by the enclosing `if em == X` chain, or None"""
        cur, prev = node, None
        while id(cur) in parent:
            prev, cur = cur, parent[id(cur)]
            if isinstance(cur, ast.If):
                cp = compare_parts(cur.test)
                if cp and cp[0] is ast.Eq and is_name(cp[1], mode_param) and isinstance(cp[2], ast.Name) and prev in cur.body:
                    return cp[2].id
                if cp and is_name(cp[1], mode_param) and prev in cur.orelse and not (len(cur.orelse) == 1 and isinstance(cur.orelse[0], ast.If) and compare_parts(cur.orelse[0].test) and is_name(compare_parts(cur.orelse[0].test)[1], mode_param)):
                    # the final else of the chain: every mode tested above is excluded; with four modes the remaining one is DARK
                    tested = []
                    c2 = cur
                    while True:
                        cp2 = compare_parts(c2.test)
                        if cp2 and is_name(cp2[1], mode_param) and isinstance(cp2[2], ast.Name):
                            tested.append(cp2[2].id)
                        up = parent.get(id(c2))
                        if isinstance(up, ast.If) and c2 in up.orelse:
                            c2 = up
                        else:
                            break
                    rest = [m for m in ('EXACT', 'REAL', 'EDARK', 'DARK') if m not in tested]
                    return rest[0] if len(rest) == 1 else None
        return None
    subs = [n for n in walk_no_nested(f.node, include_root=False) if isinstance(n, ast.Assign) and isinstance(n.value, ast.Call) and
            call_name(n.value) == 'solve' and n.value.args and isinstance(n.value.args[0], ast.Name) and n.value.args[0].id in ('DARK', 'EDARK')]
    need(len(subs) >= 4, 'omega.solve: sub-searches in dark-shadow mode not found')
    for a in subs:
        v = a.targets[0].id
        # the return that hands the result on: the next return in the same block that mentions v
        blk = parent[id(a)]
        body = blk.body if a in getattr(blk, 'body', []) else blk.orelse
        rets = [st for st in body[body.index(a) + 1:] if isinstance(st, ast.Return) and any(is_name(x, v) for x in ast.walk(st))]
        need(rets, 'omega.solve: result of a dark-shadow sub-search is not returned in its block')
        r = rets[0]
        ok = False
        c = r.value
        while isinstance(c, ast.Call):
            if _drops_contr(repo, c, lambda nm, r=r: mode_at(r) if nm == mode_param else None):
                ok = True
                break
            c = c.args[-1] if c.args else None
        res.add('prover/omega.py :: solve :: dark-result@%s(%s)' % (mode_at(a) or '?', src(a.value, 40)), ok,
                'a contradiction is turned into "no conclusion" before the result is returned' if ok else
                '`%s` hands on the result of a dark-shadow search as it is (in mode %s): a contradiction there becomes the verdict UNSAT for a '
                'system that has an integer solution (2x + 3y = 1 was answered UNSAT)' % (src(r, 70), mode_at(r)), 'prover/omega.py:%d' % r.lineno)
    return res


def rule_o4(repo):
    """Asserting a bound on a non-basic variable moves it (update), which shifts the basic variables of
    its rows - possibly out of their bounds.  Only check() repairs that.  The assignment that is reported as a
    witness is the one left by the last assertion: after every assertion, on every path to the next one (or to
    the end), the tableau must have been checked."""
    from ..cfg import cfg_of
    res = RuleResult('C16.O4', 'after every asserted bound the tableau is checked before the next assertion or the result', floor=2)
    for rel, qual in (('prover/simplex.py', 'Simplex.handle_assertion'), ('prover/simplex.py', 'SimplexHOLWrapper.handle_assertion')):
        cname, mname = qual.split('.')
        f = need(repo.module(rel).classes[cname].find_method(mname), '%s not found' % qual)
        cfg = cfg_of(f.node)
        from ..flow import flow_of
        o4flow = flow_of(f.node)

        def callees(c):
            # `bound = self.assert_upper if .. else self.assert_lower; bound(var, a)`: a local that names a method
            if isinstance(c.func, ast.Name) and o4flow.is_local(c.func.id):
                v = o4flow.inline(c.func)
                alts = [v.body, v.orelse] if isinstance(v, ast.IfExp) else [v]
                return {a.attr for a in alts if isinstance(a, ast.Attribute)}
            return {call_attr(c)}

        def has_call(n, names):
            return n.ast is not None and n.kind in ('stmt', 'test', 'return') and any(
                isinstance(c, ast.Call) and (callees(c) & set(names)) for c in ast.walk(n.ast))
        asserts = [n for n in cfg.nodes if has_call(n, ('assert_upper', 'assert_lower')) and not isinstance(n.ast, (ast.For, ast.If, ast.Try))]
        checks = [n for n in cfg.nodes if has_call(n, ('check',)) and not isinstance(n.ast, (ast.For, ast.Try))]
        need(asserts and checks, '%s: assertion of bounds / call of check not found' % qual)
        iters = [n for n in cfg.nodes if n.kind == 'iter']
        need(iters, '%s: loop over the assertions not found' % qual)
        for a in asserts:
            r = cfg.reach_from([b for b, l in a.succ if l != 'exc'], skip_nodes=checks, skip_edges=[(n.id, 'exc') for n in cfg.nodes])
            hit = [i for i in iters if i.id in r] + ([cfg.exit] if cfg.exit.id in r else [])
            res.add('%s :: %s :: checked-after(%s)' % (rel, qual, src(a.ast, 40)), not hit,
                    'every path to the next assertion or the end passes check()' if not hit else
                    'a path from `%s` reaches %s without check(): the basic variables of the rows of a moved non-basic variable can be left outside '
                    'their bounds, and the assignment is reported as a solution (x+y<=2, x>=3 gave x=3, y=0)' % (
                        src(a.ast, 50), 'the next assertion' if hit[0].kind == 'iter' else 'the end'), '%s:%d' % (rel, a.lineno))
    return res


def rule_o5(repo):
    """one_var_analysis compares bounds as if the one variable left had coefficient +1 / -1 ("our gcd checks
    will have ensured ...").  That holds only if *every* factoid that enters a database was divided by the gcd of
    its coefficients - the rows given by the caller as much as the derived ones - and if the gcd of a single
    negative coefficient is its absolute value (functools.reduce(gcd, [-3]) is -3: nothing is reduced)."""
    res = RuleResult('C16.O5', 'every factoid that enters a constraint database was divided by the gcd of its coefficients, or is copied from a database', floor=3)
    m = repo.module('prover/omega.py')

    def gcd_calls(node, about):
        out = []
        for c in ast.walk(node):
            if isinstance(c, ast.Call) and call_name(c) in ('functools.reduce', 'reduce') and c.args and is_name(c.args[0], 'gcd') and \
                    any(is_name(x, about) for x in ast.walk(c)):
                absolute = (len(c.args) >= 3 and isinstance(c.args[2], ast.Constant) and c.args[2].value == 0) or \
                    any(isinstance(x, ast.Call) and call_name(x) == 'abs' for x in ast.walk(c))
                out.append((c, absolute))
        return out
    # helpers that return their argument divided by the gcd of its coefficients
    reducers = {}
    for g in m.functions.values():
        ps = g.params()
        if len(ps) != 1:
            continue
        gc = gcd_calls(g.node, ps[0])
        rets = [r for r in ast.walk(g.node) if isinstance(r, ast.Return) and r.value is not None]
        from ..flow import flow_of as _fo
        gflow = _fo(g.node)
        divided = {t.id for a in ast.walk(g.node) if isinstance(a, ast.Assign) and any(isinstance(x, ast.BinOp) and isinstance(x.op, ast.FloorDiv) for x in ast.walk(a.value))
                   for t in a.targets if isinstance(t, ast.Name)}
        if gc and rets and all(is_name(r.value, ps[0]) or any(isinstance(x, ast.BinOp) and isinstance(x.op, ast.FloorDiv) for x in ast.walk(r.value)) or
                               isinstance(r.value, ast.Name) or (gflow.names_closure(r.value) & divided) for r in rets):
            reducers[g.name] = all(a for _c, a in gc)
    for f in m.all_funcs:
        if f.name == 'insert_db' or f.parent is not None or f.name in reducers:
            continue
        calls = [c for c in ast.walk(f.node) if isinstance(c, ast.Call) and call_name(c) == 'insert_db' and len(c.args) == 2]
        if not calls:
            continue
        from ..cfg import cfg_of
        cfg = cfg_of(f.node)
        for c in calls:
            v = c.args[1]
            key = 'prover/omega.py :: %s :: insert(%s)@%s' % (f.qualname, src(v, 30), src(c.args[0], 15))
            if isinstance(v, ast.Call) and call_name(v) in reducers:
                res.add(key, reducers[call_name(v)], 'reduced by %s' % call_name(v) if reducers[call_name(v)] else
                        '%s takes the gcd without the initial 0: a single negative coefficient is not reduced' % call_name(v), 'prover/omega.py:%d' % c.lineno)
                continue
            if not isinstance(v, ast.Name):
                res.add(key, False, 'line %d inserts `%s` as it is built: the row is never divided by the gcd of its coefficients, and the bounds '
                        'of a variable with coefficient 3 are compared as if it were 1 ([[1, 1], [-3, -2]] was answered UNSAT, x = -1 satisfies it)' % (
                            c.lineno, src(v, 40)), 'prover/omega.py:%d' % c.lineno)
                continue
            node = cfg.node_for(c)
            need(node is not None, 'omega.%s: insert_db call not in the flow graph' % f.qualname)
            defs = cfg.reaching_assignments(node, v.id)
            need(defs, 'omega.%s: no definition of `%s` reaches the insertion' % (f.qualname, v.id))
            problems = []
            built = [d for d in defs if d.kind == 'stmt' and isinstance(d.ast, ast.Assign)]
            copied = [d for d in defs if not (d.kind == 'stmt' and isinstance(d.ast, ast.Assign))]
            by_helper = [d for d in built if isinstance(d.ast.value, ast.Call) and call_name(d.ast.value) in reducers]
            if by_helper and len(by_helper) == len(built):
                bad_h = [call_name(d.ast.value) for d in by_helper if not reducers[call_name(d.ast.value)]]
                res.add(key, not bad_h, 'reduced by %s' % call_name(by_helper[0].ast.value) if not bad_h else
                        '%s takes the gcd without the initial 0: a single negative coefficient is not reduced' % bad_h[0], 'prover/omega.py:%d' % c.lineno)
                continue
            if built:
                # a gcd computation over the coefficients of v dominates the insertion
                gcds = [n for n in cfg.nodes if n.kind == 'stmt' and isinstance(n.ast, ast.Assign) and isinstance(n.ast.value, ast.Call) and
                        call_name(n.ast.value) in ('functools.reduce', 'reduce') and n.ast.value.args and is_name(n.ast.value.args[0], 'gcd') and
                        any(is_name(x, v.id) for x in ast.walk(n.ast.value))]
                dom = [g for g in gcds if cfg.dominates(g, node)]
                if not dom:
                    problems.append('`%s` is built at line %d and inserted at line %d without a gcd reduction in between' % (v.id, built[0].lineno, c.lineno))
                else:
                    g = dom[0].ast.value
                    absolute = (len(g.args) >= 3 and isinstance(g.args[2], ast.Constant) and g.args[2].value == 0) or \
                        any(isinstance(x, ast.Call) and call_name(x) == 'abs' for x in ast.walk(g))
                    if not absolute:
                        problems.append('line %d `%s`: the gcd of a single negative coefficient is that coefficient itself (reduce without the initial 0), '
                                        'so 0 <= -3x - 2 is not reduced to 0 <= -x - 1' % (dom[0].lineno, src(g, 50)))
            res.add(key, not problems,
                    ('copied from a database' if not built else 'divided by the (non-negative) gcd of its coefficients before it is inserted') if not problems else
                    '; '.join(problems), 'prover/omega.py:%d' % c.lineno)
    return res


def rule_o6(repo):
    """A bound that crosses the opposite bound of its variable is a contradiction whatever the variable's
    role in the tableau is at that moment.  In assert_upper / assert_lower the new bound is stored (self.bound[x] = ..)
    only on paths on which it was compared with the opposite bound and found compatible; a crossing bound stored
    for a basic variable is never looked at again (check() moves the variable to that bound and makes it non-basic)."""
    from ..cfg import cfg_of
    res = RuleResult('C16.O6', 'a new bound is stored only after it was compared with the opposite bound of the variable', floor=4)
    for rel in ('prover/simplex.py', 'prover/simplex_strict.py'):
        cls = repo.module(rel).classes.get('Simplex')
        need(cls is not None, '%s: class Simplex not found' % rel)
        for mname, opp_index in (('assert_upper', 0), ('assert_lower', 1)):
            f = need(cls.find_method(mname), '%s: Simplex.%s not found' % (rel, mname))
            ps = f.params()
            x, c = ps[1], ps[2]
            cfg = cfg_of(f.node)
            # l, u = self.bound[x]
            unpack = [a for a in ast.walk(f.node) if isinstance(a, ast.Assign) and isinstance(a.targets[0], (ast.Tuple, ast.List)) and len(a.targets[0].elts) == 2 and
                      src(a.value, 40) == 'self.bound[%s]' % x]
            need(unpack, '%s.%s: `l, u = self.bound[%s]` not found' % (rel, mname, x))
            opp = unpack[0].targets[0].elts[opp_index].id
            stores = [n for n in cfg.stmt_nodes(ast.Assign) if isinstance(n.ast.targets[0], ast.Subscript) and src(n.ast.targets[0], 40) == 'self.bound[%s]' % x]
            need(stores, '%s.%s: store of the new bound not found' % (rel, mname))
            tests = [t for t in cfg.test_nodes() if compare_parts(t.ast) and {src(compare_parts(t.ast)[1], 20), src(compare_parts(t.ast)[2], 20)} == {c, opp}]
            ok = bool(tests)
            why = 'no comparison of %s with the opposite bound %s' % (c, opp)
            if tests:
                t = tests[0]
                # the side of the comparison that raises
                raising = [l for bn, l in t.succ if cfg.exit.id not in cfg.reach_from([bn]) or isinstance(bn.ast, ast.Raise)]
                passing = [(t.id, l) for bn, l in t.succ if l not in raising]
                ok = bool(raising) and all(cfg.path_avoiding(st, skip_edges=passing) is None for st in stores)
                why = ('the comparison `%s` never rejects' % src(t.ast, 20)) if not raising else \
                    'line %d stores the bound on a path that has not passed `%s`' % (stores[0].lineno, src(t.ast, 20))
            res.add('%s :: Simplex.%s :: crossing-test-before-store' % (rel, mname), ok,
                    'every store of the new bound is behind the comparison with %s' % opp if ok else
                    why + ' -- for a variable that is basic at that moment the crossing bound is stored silently; x+y >= -5, x+y <= -7 was answered SAT with x = -7, y = 0',
                    f.loc)
    return res


def rule_o7(repo):
    """Infeasibility is signalled by the solver's own exceptions (UNSATException, AssertLowerException,
    AssertUpperException).  A handler that turns an exception into "this branch has no solution" must name them: a
    bare `except:` (or `except Exception`) also catches a KeyError or AssertionError raised by a defect, and the
    defect then changes the verdict instead of surfacing."""
    res = RuleResult('C16.O7', 'a handler that turns an exception into a verdict names the infeasibility exceptions of the solver', floor=2)
    for rel in FILES:
        m = repo.module(rel)
        own = {c for c in m.classes if c.endswith('Exception')}
        for f in m.all_funcs:
            for t in [n for n in walk_no_nested(f.node, include_root=False) if isinstance(n, ast.Try)]:
                for h in t.handlers:
                    names = []
                    if h.type is not None:
                        names = [src(x, 40) for x in (h.type.elts if isinstance(h.type, ast.Tuple) else [h.type])]
                    re_raises = any(isinstance(x, ast.Raise) and x.exc is None for x in ast.walk(h))
                    broad = h.type is None or any(nm in ('Exception', 'BaseException') for nm in names)
                    ok = (not broad) or re_raises
                    res.add('%s :: %s :: handler@%s' % (rel, f.qualname, ','.join(names) or 'bare'), ok,
                            'names %s' % ', '.join(names) if ok and names else ('re-raises' if ok else
                            'line %d catches %s and goes on: an internal error (KeyError while asserting a bound) is taken for an infeasible branch - '
                            '2x >= 5 was answered "no integer solution"' % (h.lineno, 'everything' if h.type is None else ', '.join(names))),
                            '%s:%d' % (rel, h.lineno))
    return res


def rule_o8(repo):
    """The constraint database files a factoid under the *hash* of its key.  A bucket can hold factoids with other keys
    (hash((1, -1)) == hash((1, -2)) in CPython: -1 and -2 have the same hash), so whatever is concluded from an entry of
    a bucket - redundant, contradictory, found - is concluded only after the entry's key was compared with the key that
    is looked for.  Without the comparison a factoid that merely shares the bucket is taken for the opposite bound and a
    system with an integer solution is answered UNSAT."""
    from ..flow import flow_of
    res = RuleResult('C16.O8', 'an entry of a hash bucket of the constraint database is used only after its key was compared', floor=3)
    m_ = repo.module('prover/omega.py')
    for f in m_.all_funcs:
        if f.parent is not None:
            continue
        cfg, flow = None, None
        for lp in [n for n in ast.walk(f.node) if isinstance(n, ast.For) and isinstance(n.target, ast.Name)]:
            flow = flow or flow_of(f.node)
            it = flow.inline(lp.iter)
            if not (isinstance(it, ast.Subscript) and any(isinstance(c, ast.Call) and call_name(c) == 'hash' for c in ast.walk(flow.inline(it.slice)))):
                continue
            cfg = cfg or cfg_of(f.node)
            v = lp.target.id
            head = [n for n in cfg.nodes_of_kind('iter') if n.ast is lp]
            if not head:
                continue

            def key_compared(e, pol, v=v):
                cp = compare_parts(e)
                if not cp:
                    return False
                ks = [path_of(x) or '' for x in (cp[1], cp[2])]
                mine = any(k in (v + '.factoid.key', v + '.key') for k in ks)
                return mine and ((cp[0] is ast.Eq and pol) or (cp[0] is ast.NotEq and not pol))
            edges = cfg.establishing_edges(key_compared)
            inside = cfg.reach_from([b for b, l in head[0].succ if l == 'loop'], skip_nodes=head)
            uses = [n for n in cfg.nodes if n.id in inside and n.kind in ('stmt', 'return') and isinstance(n.ast, (ast.Assign, ast.AugAssign, ast.Return, ast.Expr)) and
                    not (isinstance(n.ast, ast.Assign) and isinstance(n.ast.value, (ast.Attribute, ast.Name, ast.Tuple)) and
                         all(isinstance(t, (ast.Name, ast.Tuple)) for t in n.ast.targets) and path_base_is(n.ast.value, v) and
                         not _read_outside(f.node, lp, n.ast.targets))]
            bad = [u for u in uses if cfg.path_avoiding(u, skip_edges=edges, start=head[0]) is not None]
            res.add('prover/omega.py :: %s :: bucket(%s)' % (f.qualname, src(it, 40)), not bad,
                    'every conclusion from an entry follows a comparison of its key' if not bad else
                    'line %d `%s` is reached for an entry of the bucket `%s` whose key was not compared: entries of a bucket agree on the hash of the key '
                    'only' % (bad[0].lineno, src(bad[0].ast, 50), src(it, 40)), 'prover/omega.py:%d' % (bad[0] if bad else lp).lineno)
        # the same walk written as a comprehension: [v .. for v in db[hash(k)] if v.factoid.key == k.key and ..] - the key comparison is the first filter
        for comp in [n for n in ast.walk(f.node) if isinstance(n, (ast.ListComp, ast.GeneratorExp, ast.SetComp)) and len(n.generators) == 1 and
                     isinstance(n.generators[0].target, ast.Name)]:
            flow = flow or flow_of(f.node)
            g_ = comp.generators[0]
            it = flow.inline(g_.iter)
            if not (isinstance(it, ast.Subscript) and any(isinstance(c, ast.Call) and call_name(c) == 'hash' for c in ast.walk(flow.inline(it.slice)))):
                continue
            v = g_.target.id
            first = []
            if g_.ifs:
                c0 = g_.ifs[0]
                first = c0.values[:1] if isinstance(c0, ast.BoolOp) and isinstance(c0.op, ast.And) else [c0]
            ok = False
            for t_ in first:
                cp = compare_parts(t_)
                if cp and cp[0] is ast.Eq and any((path_of(x) or '') in (v + '.factoid.key', v + '.key') for x in (cp[1], cp[2])):
                    ok = True
            res.add('prover/omega.py :: %s :: bucket(%s)' % (f.qualname, src(it, 40)), ok,
                    'the entries are filtered by their key first' if ok else
                    'line %d takes entries of the bucket `%s` without comparing their key first: entries of a bucket agree on the hash of the key only' % (
                        comp.lineno, src(it, 40)), 'prover/omega.py:%d' % comp.lineno)
    return res


def _read_outside(funcnode, loop, targets):
    """one of the assigned names is read outside the loop: the assignment is a conclusion, not a local abbreviation"""
    names = {x.id for t in targets for x in ast.walk(t) if isinstance(x, ast.Name)}
    inside = {id(x) for x in ast.walk(loop)}
    return any(isinstance(x, ast.Name) and isinstance(x.ctx, ast.Load) and x.id in names and id(x) not in inside for x in ast.walk(funcnode))


def path_base_is(e, v):
    """e only takes the entry apart (`d, f = v.deriv, v.factoid`)"""
    names = {x.id for x in ast.walk(e) if isinstance(x, ast.Name)}
    return names == {v}

def rule_o9(repo):
    """Two bounds contradict each other only when they *cross*: an upper bound strictly below a lower bound, the sum of two
    opposite constants strictly negative.  Where they meet the system has a solution (an implied equality): x + y >= 2 with
    x <= 0 and y <= 2 is satisfied by (0, 2).  Every comparison of two bounds / constants that a direct contradiction
    (`Contr(DirectContr(..))`) depends on - directly, or through the test under which the partner of the contradiction was
    picked - is therefore a strict one.  Sign tests against a literal are not comparisons of two bounds."""
    from ..astutil import comparison_holding
    res = RuleResult('C16.O9', 'a direct contradiction between two bounds is concluded from a strict comparison only', floor=2)
    ORDER = (ast.Lt, ast.LtE, ast.Gt, ast.GtE)
    m = repo.module('prover/omega.py')
    for f in m.all_funcs:
        rets = [r for r in ast.walk(f.node) if isinstance(r, ast.Return) and isinstance(r.value, ast.Call) and call_name(r.value) == 'Contr' and r.value.args and
                isinstance(r.value.args[0], ast.Call) and call_name(r.value.args[0]) == 'DirectContr']
        own = {id(x) for g in f.nested.values() for x in ast.walk(g.node)} if getattr(f, 'nested', None) else set()
        rets = [r for r in rets if id(r) not in own]
        if not rets:
            continue
        cfg = cfg_of(f.node)
        for r in rets:
            targets = [cfg.node_for(r)]
            # the partners of the contradiction that are picked earlier under a test (found_contra = v.deriv)
            picked = {x.id for a in r.value.args[0].args for x in ast.walk(a) if isinstance(x, ast.Name)}
            for n in cfg.stmt_nodes(ast.Assign):
                if any(isinstance(t, ast.Name) and t.id in picked for t in n.ast.targets) and not (isinstance(n.ast.value, ast.Constant) and n.ast.value.value is None):
                    targets.append(n)
            seen = set()
            # the partner may be selected by the filter of a comprehension (contras = [v.deriv for v in bucket if .. and c_v < -c_f])
            from ..flow import flow_of as _fo9
            fl9 = _fo9(f.node)
            reach9 = set()
            for nm in picked:
                reach9 |= fl9.names_closure(ast.Name(id=nm, ctx=ast.Load()))
            for nm in sorted(reach9):
                for comp in [x for _k, rhs in fl9.defs.get(nm, []) for x in ast.walk(rhs) if isinstance(x, (ast.ListComp, ast.GeneratorExp))]:
                    for cnd in [c_ for g_ in comp.generators for c_ in g_.ifs]:
                        for cj in (cnd.values if isinstance(cnd, ast.BoolOp) and isinstance(cnd.op, ast.And) else [cnd]):
                            cp = compare_parts(cj)
                            if not cp or cp[0] not in ORDER or isinstance(cp[1], ast.Constant) or isinstance(cp[2], ast.Constant) or src(cj) in seen:
                                continue
                            seen.add(src(cj))
                            strict = cp[0] in (ast.Lt, ast.Gt)
                            res.add('%s :: %s :: contradiction-by(%s)' % (m.rel, f.qualname, src(cj, 50)), strict,
                                    'strict comparison' if strict else
                                    'line %d: the partner of the contradiction reported at line %d is selected by `%s`, which also holds when the two bounds meet' % (
                                        cj.lineno, r.lineno, src(cj, 60)), '%s:%d' % (m.rel, cj.lineno))
            for tgt in targets:
                if tgt is None:
                    continue
                for t in cfg.test_nodes():
                    cp = compare_parts(t.ast)
                    if not cp or cp[0] not in ORDER or isinstance(cp[1], ast.Constant) or isinstance(cp[2], ast.Constant) or id(t) in seen:
                        continue
                    if any(isinstance(x, ast.UnaryOp) and isinstance(x.operand, ast.Constant) for x in (cp[1], cp[2])):
                        continue
                    need_true = cfg.path_avoiding(tgt, skip_edges={(t.id, 'true')}) is None
                    need_false = cfg.path_avoiding(tgt, skip_edges={(t.id, 'false')}) is None
                    if need_true == need_false:
                        continue            # the comparison does not decide whether this point is reached
                    seen.add(id(t))
                    holds = comparison_holding(t.ast, need_true)
                    strict = bool(holds) and holds[0][0] in (ast.Lt, ast.Gt)
                    res.add('%s :: %s :: contradiction-by(%s)' % (m.rel, f.qualname, src(t.ast, 50)), strict,
                            'strict comparison' if strict else
                            'line %d: the contradiction reported at line %d rests on `%s` being %s, which also holds when the two bounds meet: '
                            'x + y >= 2, x <= 0, y <= 2 is then answered UNSAT although (0, 2) satisfies it' % (
                                t.lineno, r.lineno, src(t.ast, 60), 'true' if need_true else 'false'), '%s:%d' % (m.rel, t.lineno))
    return res

def rule_o10(repo):
    """A row without variables is a constraint all the same: 0 <= c holds or fails by its constant, and no elimination step
    will ever look at it again (there is no variable to eliminate).  So every row that is *new* to a database - made from
    the input, or by combining two rows - is decided by its constant if it has no variable, before it is filed: the insert
    is reached only where `is_false_factoid()` answered no.  (Rows copied from one database into another were decided
    when they were new.)  The two places that make new rows are siblings; the one for derived rows had the test, the one
    for input rows did not: [[0, -2], [1, -1]] was answered SAT."""
    res = RuleResult('C16.O10', 'a new row enters the constraint database only after a row without variables was decided by its constant', floor=2)
    m = repo.module('prover/omega.py')
    for f in m.all_funcs:
        if f.name == 'insert_db':
            continue
        calls = [c for c in ast.walk(f.node) if isinstance(c, ast.Call) and is_name(c.func, 'insert_db') and len(c.args) == 2 and isinstance(c.args[1], ast.Name)]
        own = {id(x) for g in f.nested.values() for x in ast.walk(g.node)} if getattr(f, 'nested', None) else set()
        calls = [c for c in calls if id(c) not in own]
        if not calls:
            continue
        cfg = cfg_of(f.node)
        for c in calls:
            v = c.args[1].id
            # copied from an existing database: the element of a loop over the values of a dictionary
            copied = False
            for lp in ast.walk(f.node):
                if isinstance(lp, ast.For) and is_name(lp.target, v) and any(x is c for st in lp.body for x in ast.walk(st)):
                    outer = [o for o in ast.walk(f.node) if isinstance(o, ast.For) and any(x is lp for st in o.body for x in ast.walk(st)) and
                             isinstance(o.iter, ast.Call) and call_attr(o.iter) in ('items', 'values')]
                    if (isinstance(lp.iter, ast.Name) and outer) or (isinstance(lp.iter, ast.Call) and call_attr(lp.iter) in ('values',)):
                        copied = True
            if copied:
                continue

            def decided(e, pol, v=v):
                return not pol and isinstance(e, ast.Call) and call_attr(e) == 'is_false_factoid' and src(e.func.value) in (v + '.factoid', v)
            edges = cfg.establishing_edges(decided)
            n = cfg.node_for(c)
            ok = bool(edges) and n is not None and cfg.path_avoiding(n, skip_edges=edges) is None
            res.add('%s :: %s :: new-row(%s)' % (m.rel, f.qualname, v), ok,
                    'filed only after `%s.factoid.is_false_factoid()` answered no' % v if ok else
                    'line %d files the new row `%s` without asking whether it is a row without variables and a negative constant: 0 <= -2 stays in '
                    'the database, no step ever looks at it, and the system is answered SAT' % (c.lineno, v), '%s:%d' % (m.rel, c.lineno))
    return res

def rule_o11(repo):
    """The solver files a one-term constraint a * x >= b by cases on the coefficient: 1 (a bound on x itself), other non-zero values
    (a slack variable).  A chain of cases on one number that has no last `else` lets the remaining value fall through without
    a word - here the coefficient 0, whose constraint 0 >= b is decided by its constant: {0 * x >= 5, x >= 0} was answered
    satisfiable.  Every case distinction on a coefficient in `Simplex.add_ineq` ends in a branch for what is left."""
    res = RuleResult('C16.O11', 'the case distinction on the coefficient of a one-term constraint has a case for every value', floor=2)
    f = repo.func('prover/simplex.py', 'Simplex.add_ineq')
    chains = []
    handled = set()
    for n in ast.walk(f.node):
        if not isinstance(n, ast.If) or id(n) in handled:
            continue
        cp = compare_parts(n.test)
        if not (cp and isinstance(cp[1], ast.Name) and 'coeff' in cp[1].id and isinstance(cp[2], ast.Constant)):
            continue
        # follow the elif chain
        tests, cur = [], n
        while True:
            handled.add(id(cur))
            tests.append(cur.test)
            if len(cur.orelse) == 1 and isinstance(cur.orelse[0], ast.If):
                cur = cur.orelse[0]
                continue
            break
        chains.append((n, tests, bool(cur.orelse)))
    need(chains, 'Simplex.add_ineq: no case distinction on the coefficient found')
    for i, (n, tests, has_else) in enumerate(chains):
        # what the tests on the coefficient leave over is looked at: a last `else`, or a further branch of the chain that asks something else
        # (`elif lower_bound > 0:` - the constraint without variable decided by its constant; if it holds there is nothing to do)
        def about_coeff(t):
            c_ = compare_parts(t)
            return bool(c_) and isinstance(c_[1], ast.Name) and 'coeff' in c_[1].id
        rest_considered = any(not about_coeff(t) for t in tests[1:])
        has_else = has_else or rest_considered
        res.add('prover/simplex.py :: Simplex.add_ineq :: coefficient-cases#%d' % (i + 1), has_else,
                'cases `%s` and a last branch for the rest' % '`, `'.join(src(t, 30) for t in tests) if has_else else
                'line %d: the cases `%s` have no last branch: a constraint whose coefficient takes none of them (0 * x >= 5) is dropped, and an infeasible '
                'system is answered satisfiable' % (n.lineno, '`, `'.join(src(t, 30) for t in tests)), 'prover/simplex.py:%d' % n.lineno)
    return res

def _whole_list(v):
    """the expression denotes the parent's list `<..>.original` with nothing left out: the attribute itself, a copy of it
    (list(), tuple(), [:], copy()), or a comprehension over it without a condition"""
    if (path_of(v) or '').endswith('.original'):
        return True
    if isinstance(v, ast.Call) and (call_name(v) in ('list', 'tuple', 'copy', 'copy.copy') or call_attr(v) == 'copy') and (v.args or isinstance(v.func, ast.Attribute)):
        return _whole_list(v.args[0] if v.args else v.func.value)
    if isinstance(v, ast.Subscript) and isinstance(v.slice, ast.Slice) and v.slice.lower is None and v.slice.upper is None and v.slice.step is None:
        return _whole_list(v.value)
    if isinstance(v, (ast.ListComp, ast.GeneratorExp)) and len(v.generators) == 1 and not v.generators[0].ifs and \
            isinstance(v.elt, ast.Name) and isinstance(v.generators[0].target, ast.Name) and v.elt.id == v.generators[0].target.id:
        return _whole_list(v.generators[0].iter)
    return False


def rule_o12(repo):
    """Branch and bound answers for the system it was given only if every sub-problem keeps *all* the constraints of its parent and adds
    one.  The children are built with `add_ineqs(<new bound>, *<parent>.original)`: the list handed over is the parent's list as it is.
    Filtered ("the new bound on v supersedes the old ones") the child also loses the bounds on v in the other direction, and a
    witness is returned that violates a constraint that was given."""
    res = RuleResult('C16.O12', 'every sub-problem of branch and bound keeps all constraints of its parent', floor=1)
    f = repo.func('prover/simplex.py', 'branch_and_bound')
    flow = flow_of(f.node) if 'flow_of' in globals() else None
    from ..flow import flow_of as _flow_of
    flow = _flow_of(f.node)
    calls = [c for c in ast.walk(f.node) if isinstance(c, ast.Call) and call_attr(c) == 'add_ineqs' and any(isinstance(a, ast.Starred) for a in c.args)]
    need(calls, 'branch_and_bound: the calls that build the sub-problems (add_ineqs(.., *..)) not found')
    for i, c in enumerate(calls):
        star = [a for a in c.args if isinstance(a, ast.Starred)][0]
        v = flow.inline(star.value)
        whole = _whole_list(v)
        res.add('prover/simplex.py :: branch_and_bound :: child#%d-inherits' % (i + 1), whole,
                'the child is given `*%s`' % src(v, 40) if whole else
                'line %d builds a sub-problem from `%s`, not from the parent\'s whole list of constraints: what is left out no longer binds the witness '
                '(-3x + 3y <= -4, -3x + 2y >= 0 in the box [-5, 5]^2 is answered SAT with y = -6)' % (c.lineno, src(v, 70)), 'prover/simplex.py:%d' % c.lineno)
    return res


def rules(repo):
    return [rule_o1(repo), rule_o2(repo), rule_o3(repo), rule_o4(repo), rule_o5(repo), rule_o6(repo), rule_o7(repo), rule_o8(repo), rule_o9(repo), rule_o10(repo), rule_o11(repo), rule_o12(repo)]
