"""C16 - Omega test and simplex: exact arithmetic, and the witness extension looks at every constraint.

That the procedures agree with ground truth is numerical and not decided.  One necessary condition is
visible in the code: they must compute with integers and fractions only.  Python's `/` on two ints, `float()`
and the math functions round beyond 2^53; `floor(i / g)`, `int(c / g)` and `float(v).is_integer()` then give
a wrong quotient or a wrong integrality verdict, and the procedure reports a witness that violates a
constraint (or tightens a bound it must not tighten)."""
import ast

from ..core import RuleResult, need
from ..astutil import src, call_attr, call_name, is_name, walk_no_nested, compare_parts
from .c05 import inexact_sources

FILES = ('prover/omega.py', 'prover/simplex.py', 'prover/simplex_strict.py')

NOT_DECIDED = ('agreement of the answers with ground truth, correctness of elimination order, dark shadows, pivoting rule, '
               'termination, checker acceptance of the produced proofs (numerical / run-time)')
ASSUMPTIONS = ['int // int, int % int, Fraction arithmetic and math.gcd / floor / ceil on Fractions are exact (CPython)']

# confirmed exceptions: (file, function, construct) -> reason
O1_EXEMPT = {
    ('prover/simplex_strict.py', 'Simplex.pivotAndUpdate', 'true division `(v - self.mapping[xi]) / a` with no Fraction operand'):
        'the values of this solver are Pair objects (x + y * delta with Fraction components, asserted in Pair.__init__); '
        'Pair.__truediv__ divides both components as Fractions',
}


def rule_o1(repo):
    res = RuleResult('C16.O1', 'the integer and rational decision procedures compute with integers and fractions only', floor=120)
    n = 0
    for rel in FILES:
        m = repo.module(rel)
        for f in m.all_funcs:
            n += 1
            found = inexact_sources(repo, f)
            bad = []
            for ln, what in found:
                ex = O1_EXEMPT.get((rel, f.qualname, what))
                if ex is None:
                    bad.append((ln, what))
            exempt = [w for _l, w in found if O1_EXEMPT.get((rel, f.qualname, w))]
            res.add('%s :: %s :: exact-arithmetic' % (rel, f.qualname), not bad,
                    ('int / Fraction arithmetic only' if not exempt else 'confirmed exception: ' + O1_EXEMPT[(rel, f.qualname, exempt[0])]) if not bad else
                    '; '.join('line %d: %s' % b for b in bad[:4]) + ' -- beyond 2^53 the result is rounded: the quotient (or the integrality '
                    'verdict) is wrong and the procedure reports a witness that violates a constraint', '%s:%d' % (rel, bad[0][0] if bad else f.node.lineno),
                    nontrivial=bool(found))
    res.info['functions_scanned'] = n
    return res


def rule_o2(repo):
    res = RuleResult('C16.O2', 'extending a witness to an eliminated variable takes every constraint on that variable into account, on both sides', floor=2)
    f = repo.func('prover/omega.py', 'extend_vmap')
    p = f.params()
    loops = [n for n in walk_no_nested(f.node, include_root=False) if isinstance(n, ast.For)]
    need(loops, 'extend_vmap: loop over the constraint database not found')
    whole = isinstance(loops[0].iter, ast.Call) and call_attr(loops[0].iter) in ('items', 'values') and is_name(loops[0].iter.func.value, p[0])
    signs = set()
    for n in ast.walk(f.node):
        cp = compare_parts(n) if isinstance(n, ast.Compare) else None
        if cp and isinstance(cp[2], ast.Constant) and cp[2].value == 0 and cp[0] in (ast.Lt, ast.Gt) and 'coeff' in src(cp[1]):
            signs.add(cp[0].__name__)
    ok = whole and signs == {'Lt', 'Gt'}
    res.add('prover/omega.py :: extend_vmap :: all-constraints-both-signs', ok,
            'loops over the whole database; negative coefficients bound from above, positive ones from below' if ok else
            'not every constraint on the eliminated variable contributes a bound (database not traversed completely, or one sign of '
            'the coefficient has no case)', f.loc)
    asserts = [n for n in ast.walk(f.node) if isinstance(n, ast.Assert) and compare_parts(n.test) and compare_parts(n.test)[0] in (ast.LtE, ast.GtE)]
    store = [n for n in ast.walk(f.node) if isinstance(n, ast.Assign) and any(isinstance(t, ast.Subscript) and is_name(t.value, p[2]) for t in n.targets)]
    ok = bool(asserts) and bool(store) and asserts[0].lineno < store[0].lineno
    res.add('prover/omega.py :: extend_vmap :: value-between-bounds', ok,
            'the bounds are compared before a value is chosen' if ok else 'a value is chosen without comparing the lower with the upper bound', f.loc)
    return res


def rules(repo):
    return [rule_o1(repo), rule_o2(repo)]
