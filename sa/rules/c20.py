"""C20 - imperative programs: what is shown is what is re-read, and the VC generator follows the Hoare rules.

Soundness of the generated conditions with respect to execution, and agreement of symbolic evaluation with
an interpreter, are semantic and not decided.  Decided: (P1) the concrete syntax of expressions and
conditions is stratified, so a printed text has one reading; (P2) the brackets Op.__str__ writes agree with
that stratification; (P3) compute_wp and the printing of verification conditions have the shape of the rules
they implement: every command kind is handled in both, every list of conditions is turned into conditions,
and each rule passes the right condition to the right sub-command."""
import ast
import re

from ..core import RuleResult, need
from ..cfg import cfg_of
from ..astutil import src, call_attr, call_name, is_name, path_of, walk_no_nested, compare_parts
from ..grammar import Ladder, grammar_text
from ..tables import fold

PARSER = 'imperative/parser2.py'
EXPR = 'imperative/expr.py'
COM = 'imperative/com.py'

NOT_DECIDED = ('soundness of the verification conditions with respect to execution, agreement of eval_Sem with a reference '
               'interpreter, the HOL translation (convert_hol), the Hoare-logic tactic (imp.vcg) over library/hoare.json')
ASSUMPTIONS = ['comparisons are not nested in comparisons (their operands are arithmetic terms)', 'lark builds an LALR table and resolves shift/reduce conflicts by shifting (observed: `a * b + c` was read as a * (b + c))',
               'operators the grammar has no production for (>=, >, <-->) are never printed for re-reading']


def _ladders(repo):
    text = grammar_text(repo.module(PARSER))
    return Ladder(text, 'expr'), Ladder(text, 'cond')


def _all_ladders(repo):
    """(parser file, start symbol, ladder) for the two parsers of the imperative language: parser2 (expression
    objects, used for annotated programs and conditions) and parser (HOL terms, used for eval_Sem)"""
    out = []
    for rel in (PARSER, 'imperative/parser.py'):
        text = grammar_text(repo.module(rel))
        for start in ('expr', 'cond'):
            out.append((rel, start, Ladder(text, start)))
    return out


def rule_p1(repo):
    res = RuleResult('C20.P1', 'every infix and prefix operator of the concrete syntax has its own level: no production is open on both sides at one level', floor=12)
    for rel, name, lad in _all_ladders(repo):
        for p, l, tok, r in lad.binary_productions():
            both = l == p.origin and r == p.origin
            res.add('%s :: %s :: production(%s %s %s)' % (rel, name, l, tok, r), not both,
                    'recursive on one side only' if not both else
                    '`%s: %s "%s" %s` is open on both sides: the grammar is ambiguous, the parser resolves it by shifting, and every operator groups to '
                    'the right regardless of precedence (a * b + c is read as a * (b + c), a - b - c as a - (b - c))' % (p.origin, l, tok, r), '%s:1' % rel)
        for p, tok, operand in lad.unary_productions():
            loose = operand == p.origin and any(q.origin == p.origin for q, _l, _t, _r in lad.binary_productions())
            res.add('%s :: %s :: production(%s %s)' % (rel, name, tok, operand), not loose,
                    'operand is at its own level' if not loose else
                    'the operand of prefix `%s` is the level that also holds the infix operators: -a + b is read as -(a + b)' % tok, '%s:1' % rel)
    return res


def _printer_model(repo):
    """(priority table, {'arith': (left cmp, right cmp), 'other': (left cmp, right cmp)}, arithmetic operator list, unary rules)
    read from Op.__str__ / Op.priority: operands are bracketed through `bracket(arg, lambda q: q <cmp> p)`"""
    m = repo.module(EXPR)
    prio = None
    for n in m.tree.body:
        if isinstance(n, ast.Assign) and any(is_name(t, 'op_priority') for t in n.targets):
            prio = fold(n.value, {})
    need(prio, 'imperative/expr.py: op_priority table not found (the printer does not decide brackets from priorities)')
    from ..streval import StrEval, Operand, bracket_decision, Unsupported
    f = repo.func(EXPR, 'Op.__str__')
    pr = repo.func(EXPR, 'Op.priority')
    classes = {c.name for c in repo.subclasses_of(repo.cls(EXPR, 'Expr')) if c.module.rel == EXPR} | {'Expr'}
    # priorities of the unary operators: Op.priority evaluated for a node with one operand
    un = {}
    for tok in ('-', '~'):
        try:
            un[tok] = StrEval(pr.node, tok, [Operand('a', 'Atom', 0)], None, classes, {'op_priority': prio}).run()
        except Unsupported as ex:
            need(False, 'Op.priority: priorities of the unary operators not understood (%s)' % ex)
    need(all(isinstance(v, int) for v in un.values()), 'Op.priority: priorities of the unary operators not found')

    def cmp_of(op, n, which, p):
        """the comparison `q <cmp> p` under which an operator operand of priority q is bracketed"""
        try:
            d = [bracket_decision(f.node, op, n, which, 'Op', q, p, classes) for q in (p - 1, p, p + 1)]
        except Unsupported as ex:
            need(False, 'Op.__str__: the bracket decision for `%s` is outside what the printer model reads (%s)' % (op, ex))
        if d == [True, False, False]:
            return ast.Lt
        if d == [True, True, False]:
            return ast.LtE
        need(False, 'Op.__str__: operand %d of `%s` is bracketed for priorities below / at / above its own as %s: not a threshold at the own priority' % (which, op, d))
    rules = {}
    for o in sorted(prio):
        rules[o] = (cmp_of(o, 2, 0, prio[o]), cmp_of(o, 2, 1, prio[o]))
    unary = {tok: cmp_of(tok, 1, 0, un[tok]) for tok in ('-', '~')}

    def always(cls_name):
        try:
            return all(bracket_decision(f.node, o, 2, i, cls_name, 10 ** 5, prio[o], classes) for o in sorted(prio) for i in (0, 1)) and \
                all(bracket_decision(f.node, tok, 1, 0, cls_name, 10 ** 5, un[tok], classes) for tok in ('-', '~'))
        except Unsupported as ex:
            need(False, 'Op.__str__: the bracket decision for a %s operand is outside what the printer model reads (%s)' % (cls_name, ex))
    return prio, rules, always, un, unary


def rule_p2(repo):
    res = RuleResult('C20.P2', 'the brackets Op.__str__ writes make the printed text re-read with the same nesting', floor=30)
    prio, rules, always, unprio, unary = _printer_model(repo)
    el, cl = _ladders(repo)
    # level of each operator token: larger number = looser; expression levels are all tighter than condition levels
    lev, side = {}, {}
    for base, lad in ((0, el), (100, cl)):
        for p, l, tok, r in lad.binary_productions():
            lev[tok] = base + lad.level[p.origin]
            side[tok] = 'left' if l == p.origin else ('right' if r == p.origin else 'none')
    ulev = {}
    for base, lad in ((0, el), (100, cl)):
        for p, tok, operand in lad.unary_productions():
            ulev[tok] = (base + lad.level[p.origin], base + lad.level.get(operand, -1), operand == p.origin)
    ops = sorted(o for o in prio if o in lev)
    for o in sorted(prio):
        if o not in lev:
            res.add('%s :: op_priority[%s] :: has-production' % (EXPR, o), True, 'no production: never re-read (assumption)', '%s:1' % EXPR, nontrivial=False)
    # order isomorphism
    for i, a in enumerate(ops):
        for b in ops[i + 1:]:
            ok = (prio[a] > prio[b]) == (lev[a] < lev[b]) and (prio[a] == prio[b]) == (lev[a] == lev[b])
            res.add('%s :: order(%s,%s)' % (EXPR, a, b), ok,
                    'priority %d/%d, level %d/%d' % (prio[a], prio[b], lev[a], lev[b]) if ok else
                    'printer priority %s=%d, %s=%d but grammar levels %d, %d (lower is tighter): brackets are omitted where the parser groups differently' % (
                        a, prio[a], b, prio[b], lev[a], lev[b]), '%s:1' % EXPR)
    # bracketing of an operand of equal priority follows the side on which the grammar recurses
    for o in ops:
        lcmp, rcmp = rules[o]
        s = side[o]
        # the side the grammar recurses on may omit brackets at equal priority; the other side must bracket
        need_left = ast.Lt if s == 'left' else ast.LtE
        need_right = ast.Lt if s == 'right' else ast.LtE
        ok = (lcmp is need_left and rcmp is need_right) or s == 'none'     # operands of a comparison are terms: always tighter
        res.add('%s :: Op.__str__ :: equal-priority-operands(%s)' % (EXPR, o), ok,
                'grammar recurses on the %s: left operand bracketed when %s, right when %s' % (s, 'lower' if lcmp is ast.Lt else 'lower or equal', 'lower' if rcmp is ast.Lt else 'lower or equal') if ok else
                'the grammar production of `%s` recurses on the %s, but the printer brackets the left operand when its priority is %s and the right one when %s: '
                'a %s (b %s c) or (a %s b) %s c is printed without brackets and re-read with the other nesting' % (
                    o, s, '<' if lcmp is ast.Lt else '<=', '<' if rcmp is ast.Lt else '<=', o, o, o, o), '%s:1' % EXPR)
    # constructs whose concrete syntax ends in an open condition (if .. then .. else c, forall x. c): as operands they
    # swallow what follows, so the printer must bracket them whatever the operator
    open_classes = set()
    tr = repo.cls(PARSER, 'HoareTransformer')
    for p in cl.productions:
        if p.symbols and not p.symbols[-1][1] and p.symbols[-1][0] in cl.level and p.symbols[0][1] and cl.token(p.symbols[0][0]) and \
                cl.token(p.symbols[0][0]).isalpha() and p.alias in tr.methods:
            for r in ast.walk(tr.methods[p.alias].node):
                if isinstance(r, ast.Return) and isinstance(r.value, ast.Call) and (call_name(r.value) or '').startswith('expr.'):
                    open_classes.add(call_name(r.value).split('.')[-1])
    need(open_classes, 'parser2: no production that ends in an open condition (if-then-else / forall) found')
    strf = repo.func(EXPR, 'Op.__str__')
    br = strf
    for c in sorted(open_classes):
        ok = always(c)
        res.add('%s :: Op.__str__ :: open-operand(%s)' % (EXPR, c), ok,
                'always bracketed as an operand' if ok else
                'a %s operand is printed without brackets: its last part extends as far to the right as possible, so (if c then a else b) & X '
                'is read back as if c then a else (b & X)' % c, br.loc)
    # unary operators
    for tok in ('-', '~'):
        need(tok in ulev, 'grammar: prefix production for %s not found' % tok)
        own, opnd, selfrec = ulev[tok]
        # the operand nonterminal admits: its own level (if self recursive) and everything tighter
        cmpop = unary[tok]
        # binary operators tighter than the operand level would need no brackets; all others must be bracketed
        must = [o for o in ops if lev[o] > opnd or (lev[o] == opnd and False)]
        bracketed = [o for o in ops if (prio[o] < unprio[tok]) or (cmpop is ast.LtE and prio[o] == unprio[tok])]
        missing = sorted(set(must) - set(bracketed))
        nested_ok = selfrec or cmpop is ast.LtE
        ok = not missing and nested_ok
        res.add('%s :: Op.__str__ :: prefix(%s)' % (EXPR, tok), ok,
                'operands with an infix operator looser than the operand level are bracketed' if ok else
                ('prefix `%s`: an operand with top operator %s is printed without brackets although the grammar admits only tighter operands there' % (tok, missing)
                 if missing else 'prefix `%s` applied to itself is printed without brackets, but the grammar does not nest it' % tok), '%s:1' % EXPR)
    return res


def rule_p3(repo):
    res = RuleResult('C20.P3', 'compute_wp and the listing of verification conditions handle every command kind and pass each rule\'s conditions to the right place', floor=12)
    base = repo.cls(COM, 'Com')
    kinds = sorted(c.name for c in repo.subclasses_of(base) if c.module.rel == COM)
    need(len(kinds) >= 5, 'imperative/com.py: fewer than five command classes')
    wp = repo.func(COM, 'Com.compute_wp')
    gl = repo.func(COM, 'Com.get_lines')
    rec = need(gl.nested.get('rec'), 'Com.get_lines: nested rec not found')

    def branches(func, subject):
        out = {}
        for n in ast.walk(func.node):
            if isinstance(n, ast.If) and isinstance(n.test, ast.Call) and call_name(n.test) == 'isinstance' and len(n.test.args) == 2 and \
                    is_name(n.test.args[0], subject) and isinstance(n.test.args[1], ast.Name):
                out[n.test.args[1].id] = n.body
        return out
    bw, br = branches(wp, 'self'), branches(rec, rec.params()[0])
    for k in kinds:
        for name, b in (('compute_wp', bw), ('get_lines.rec', br)):
            res.add('%s :: Com.%s :: handles(%s)' % (COM, name, k), k in b,
                    'has a case' if k in b else 'no case for command kind %s' % k, (wp if name == 'compute_wp' else rec).loc, nontrivial=False)
    need(all(k in bw and k in br for k in ('Skip', 'Assign', 'Seq', 'Cond', 'While')), 'compute_wp / get_lines: a basic command kind has no case')
    cmdv = rec.params()[0]

    def calls(body, name):
        return [c for st in body for c in ast.walk(st) if isinstance(c, ast.Call) and (call_name(c) == name or call_attr(c) == name)]
    # every case lists the conditions in front of the command; the loop also those behind it
    for k in ('Skip', 'Assign', 'Seq', 'Cond', 'While'):
        pre = [c for c in calls(br[k], 'add_vc') if c.args and path_of(c.args[0]) == cmdv + '.pre']
        res.add('%s :: Com.get_lines.rec :: lists-pre(%s)' % (COM, k), bool(pre),
                'add_vc(%s.pre)' % cmdv if pre else 'the conditions P_i --> P_i+1 in front of a %s command are not listed' % k, rec.loc)
    post = [c for c in calls(br['While'], 'add_vc') if c.args and path_of(c.args[0]) == cmdv + '.post']
    res.add('%s :: Com.get_lines.rec :: lists-post(While)' % COM, bool(post),
            'add_vc(%s.post)' % cmdv if post else 'the exit condition I & ~b --> Q of a loop is computed but never listed as a verification condition', rec.loc)
    # a list of conditions yields one condition per adjacent pair, text and HOL form from the same expression
    av = need(gl.nested.get('add_vc'), 'Com.get_lines: nested add_vc not found')
    loop = [n for n in ast.walk(av.node) if isinstance(n, ast.For)]
    lsp = av.params()[0]
    it = src(loop[0].iter, 80).replace(' ', '') if loop else ''
    ok = bool(loop) and ('len(%s)-1' % lsp in it or it in ('zip(%s,%s[1:])' % (lsp, lsp), 'itertools.pairwise(%s)' % lsp, 'pairwise(%s)' % lsp))
    d = [n for n in ast.walk(av.node) if isinstance(n, ast.Dict)]
    same = False
    if d:
        kv = {k.value: v for k, v in zip(d[0].keys, d[0].values) if isinstance(k, ast.Constant)}
        d = sorted(d, key=lambda x: -len(x.keys))
        kv = {k.value: v for k, v in zip(d[0].keys, d[0].values) if isinstance(k, ast.Constant)}
        vcv = [n.targets[0].id for n in ast.walk(av.node) if isinstance(n, ast.Assign) and isinstance(n.targets[0], ast.Name) and
               any(call_name(c) in ('expr.implies',) for c in ast.walk(n.value) if isinstance(c, ast.Call))]
        if vcv and 'str' in kv and 'prop' in kv:
            v = vcv[0]
            holv = [n.targets[0].id for n in ast.walk(av.node) if isinstance(n, ast.Assign) and isinstance(n.value, ast.Call) and
                    call_attr(n.value) == 'convert_hol' and is_name(n.value.func.value, v)]
            same = isinstance(kv['str'], ast.Call) and call_name(kv['str']) == 'str' and is_name(kv['str'].args[0], v) and \
                bool(holv) and is_name(kv['prop'], holv[0])
    res.add('%s :: Com.get_lines.add_vc :: every-adjacent-pair' % COM, ok,
            'one condition per adjacent pair of the list' if ok else 'not every adjacent pair of the list of conditions yields a verification condition', av.loc)
    res.add('%s :: Com.get_lines.add_vc :: text-and-HOL-form-of-one-expression' % COM, same,
            'the text shown and the HOL proposition are computed from the same expression' if same else
            'the text shown to the user and the proposition that is proved are not computed from the same expression', av.loc)
    # the rules
    def wp_calls(body):
        return [c for st in body for c in ast.walk(st) if isinstance(c, ast.Call) and call_attr(c) == 'compute_wp']
    post_p = wp.params()[1]
    # assignment: post[x := e]
    from ..flow import flow_of
    wfl = flow_of(wp.node)
    sub = [c for st in bw['Assign'] for c in ast.walk(st) if isinstance(c, ast.Call) and call_attr(c) == 'subst' and is_name(c.func.value, post_p)]
    sarg = wfl.inline(sub[0].args[0]) if sub and sub[0].args else None
    ok = bool(sub) and isinstance(sarg, ast.Dict) and len(sarg.keys) == 1 and src(sarg.keys[0]) == 'self.v.name' and src(sarg.values[0]) == 'self.e'
    res.add('%s :: Com.compute_wp :: Assign :: post[v := e]' % COM, ok, 'post.subst({v: e})' if ok else
            'the precondition of an assignment is not the postcondition with the assigned variable replaced by the assigned expression', wp.loc)
    # sequence: wp(c1, wp(c2, post))
    cs = wp_calls(bw['Seq'])
    ok = False
    if len(cs) == 2:
        by = {path_of(c.func.value): c for c in cs}
        c2, c1 = by.get('self.c2'), by.get('self.c1')
        if c1 is not None and c2 is not None and c1.args and c2.args and is_name(c2.args[0], post_p):
            # the argument of c1's computation is the result of c2's, through a local or directly
            a1 = wfl.inline(c1.args[0])
            ok = isinstance(a1, ast.Call) and call_attr(a1) == 'compute_wp' and path_of(a1.func.value) == 'self.c2' and a1.args and is_name(a1.args[0], post_p)
    res.add('%s :: Com.compute_wp :: Seq :: wp(c1, wp(c2, post))' % COM, ok, 'c2 against post, c1 against the result' if ok else
            'the second command is not computed against the postcondition, or the first not against the result of the second', wp.loc)
    # conditional: both branches against post, joined by the test
    cs = wp_calls(bw['Cond'])
    ok = len(cs) == 2 and {path_of(c.func.value) for c in cs} == {'self.c1', 'self.c2'} and all(is_name(c.args[0], post_p) for c in cs)
    ite = [c for st in bw['Cond'] for c in ast.walk(st) if isinstance(c, ast.Call) and call_name(c) in ('expr.ITE', 'ITE')]
    if ok and ite:
        a = [wfl.inline(x) for x in ite[0].args]

        def wp_of(x, which):
            return isinstance(x, ast.Call) and call_attr(x) == 'compute_wp' and path_of(x.func.value) == which
        ok = len(a) == 3 and path_of(a[0]) == 'self.b' and wp_of(a[1], 'self.c1') and wp_of(a[2], 'self.c2')
    else:
        ok = False
    res.add('%s :: Com.compute_wp :: Cond :: if b then wp(c1) else wp(c2)' % COM, ok, 'ITE(b, wp(c1, post), wp(c2, post))' if ok else
            'the precondition of a conditional is not `if b then wp(c1, post) else wp(c2, post)`', wp.loc)
    # loop
    body = bw['While']
    txt = ' ; '.join(src(st, 200) for st in body)
    cs = wp_calls(body)
    ok_body = len(cs) == 1 and path_of(cs[0].func.value) == 'self.c' and path_of(cs[0].args[0]) == 'self.inv'
    ok_pre = any(isinstance(c, ast.Call) and call_attr(c) == 'append' and path_of(c.func.value) == 'self.pre' and path_of(c.args[0]) == 'self.inv'
                 for st in body for c in ast.walk(st))
    ok_entry = any(isinstance(n, ast.Assign) and path_of(n.targets[0]) == 'self.c.pre' and 'conj(self.inv, self.b)' in src(n.value, 200)
                   for st in body for n in ast.walk(st))
    ok_exit = any(isinstance(n, ast.Assign) and path_of(n.targets[0]) == 'self.post' and isinstance(n.value, ast.List) and len(n.value.elts) == 2 and
                  'conj(self.inv' in src(n.value.elts[0], 200) and 'neg(self.b)' in src(n.value.elts[0], 200) and is_name(n.value.elts[1], post_p)
                  for st in body for n in ast.walk(st))
    for what, ok, bad in (('body-against-invariant', ok_body, 'the loop body is not computed against the invariant'),
                          ('precondition-is-invariant', ok_pre, 'the precondition of a loop is not its invariant'),
                          ('body-entered-under(I & b)', ok_entry, 'the loop body is not entered under invariant & test'),
                          ('exit(I & ~b --> post)', ok_exit, 'the exit condition of a loop is not [invariant & ~test, postcondition]')):
        res.add('%s :: Com.compute_wp :: While :: %s' % (COM, what), ok, 'as in the while rule' if ok else bad, wp.loc)
    return res


def rule_p4(repo):
    """The assignment rule is a substitution (P3), so the weakest precondition is as good as Expr.subst.
    Substitution is a homomorphism: on a compound expression it rebuilds the same node over the
    substituted parts, and it reaches every part that is an expression - the index of an array access as
    much as the operands of an operator.  It never rewrites (cancelling `-(-e)` by operator name also turns
    -(a - b) into a)."""
    res = RuleResult('C20.P4', 'substitution on program expressions rebuilds the same node over all substituted sub-expressions', floor=6)
    m = repo.module(EXPR)
    base = repo.cls(EXPR, 'Expr')
    for c in repo.subclasses_of(base):
        if c.module.rel != EXPR:
            continue
        sub = c.methods.get('subst')
        init = c.methods.get('__init__')
        if sub is None or init is None:
            continue
        inst_p = sub.params()[1]
        # expression-valued fields: parameters checked as Expr / [Expr] in typecheck.checkinstance(...)
        fields = []
        for call in ast.walk(init.node):
            if isinstance(call, ast.Call) and call_name(call) == 'typecheck.checkinstance':
                a = call.args[1:]
                for v, t in zip(a[0::2], a[1::2]):
                    if isinstance(v, ast.Name) and (is_name(t, 'Expr') or (isinstance(t, ast.List) and t.elts and is_name(t.elts[0], 'Expr'))):
                        fields.append(v.id)
        # the attribute each parameter is stored in
        attr = {}
        for n in ast.walk(init.node):
            if isinstance(n, ast.Assign) and isinstance(n.targets[0], ast.Attribute) and is_name(n.targets[0].value, 'self'):
                for x in ast.walk(n.value):
                    if isinstance(x, ast.Name) and x.id in fields:
                        attr[x.id] = n.targets[0].attr
        efields = sorted(attr[f] for f in fields if f in attr)
        rets = [r for r in ast.walk(sub.node) if isinstance(r, ast.Return) and r.value is not None]
        locals_ = {}
        for n in ast.walk(sub.node):
            if isinstance(n, ast.Assign) and isinstance(n.targets[0], ast.Name):
                locals_.setdefault(n.targets[0].id, []).append(n.value)
        bad = []
        for r in rets:
            v = r.value
            if not efields:
                # a leaf: itself, or what the instantiation gives for it
                if not (is_name(v, 'self') or (isinstance(v, ast.Subscript) and is_name(v.value, inst_p))):
                    bad.append('line %d returns `%s`' % (r.lineno, src(v, 40)))
                continue
            if not (isinstance(v, ast.Call) and call_name(v) == c.name):
                bad.append('line %d returns `%s`, not a %s node' % (r.lineno, src(v, 40), c.name))
                continue
            from ..flow import flow_of
            txt = src(flow_of(sub.node).inline(v), 600)
            for nm, vals in locals_.items():
                if len(vals) == 1:
                    txt = txt.replace('*' + nm, '*(' + src(vals[0], 300) + ')')
            for fld in efields:
                direct = 'self.%s.subst(%s)' % (fld, inst_p) in txt
                mapped = ('.subst(%s) for' % inst_p) in txt and ('in self.%s' % fld) in txt
                if not (direct or mapped):
                    bad.append('line %d: the part `self.%s` is not substituted' % (r.lineno, fld))
        res.add('%s :: %s.subst :: homomorphism' % (EXPR, c.name), not bad,
                ('leaf' if not efields else 'rebuilds %s over the substituted %s' % (c.name, ', '.join(efields))) if not bad else
                '; '.join(bad) + ' -- the precondition computed for an assignment is then not the postcondition with the variable replaced',
                sub.loc)
    return res


def rule_p5(repo):
    """The while rule states the exit condition as invariant & neg(test).  neg must build the negation of
    its argument: `Op("~", e)`, or - if it pushes the negation inwards - the *dual* connective over the negated
    parts.  Keeping the connective (neg(p & q) = ~p & ~q) makes the hypothesis of the exit condition too strong,
    and a false triple gets conditions that all hold."""
    res = RuleResult('C20.P5', 'the negation used for the exit condition of a loop negates: the node `~e`, or the dual connective over negated parts', floor=1)
    f = repo.func(EXPR, 'neg')
    p = f.params()[0]
    rets = [r for r in ast.walk(f.node) if isinstance(r, ast.Return) and r.value is not None]
    need(rets, 'expr.neg: no return')
    bad = []
    for r in rets:
        v = r.value
        if isinstance(v, ast.Call) and call_name(v) == 'Op' and v.args and isinstance(v.args[0], ast.Constant) and v.args[0].value == '~' and \
                len(v.args) == 2 and is_name(v.args[1], p):
            continue
        # distributed form: Op(<dual>, *(neg(a) for a in e.args)) - evaluate <dual> for e.op in {&, |}
        if isinstance(v, ast.Call) and call_name(v) == 'Op' and v.args:
            d = v.args[0]
            defs = [n.value for n in ast.walk(f.node) if isinstance(n, ast.Assign) and isinstance(d, ast.Name) and is_name(n.targets[0], d.id)]
            expr_d = defs[0] if defs else d

            def ev(e, opval):
                if isinstance(e, ast.Constant):
                    return e.value
                if isinstance(e, ast.IfExp):
                    cp = compare_parts(e.test)
                    if cp and cp[0] in (ast.Eq, ast.NotEq) and path_of(cp[1]) == p + '.op' and isinstance(cp[2], ast.Constant):
                        t = (opval == cp[2].value) if cp[0] is ast.Eq else (opval != cp[2].value)
                        return ev(e.body if t else e.orelse, opval)
                if isinstance(e, ast.Subscript) and isinstance(e.value, ast.Dict) and path_of(e.slice) == p + '.op':
                    for k, val in zip(e.value.keys, e.value.values):
                        if isinstance(k, ast.Constant) and k.value == opval:
                            return ev(val, opval)
                return None
            duals = {'&': '|', '|': '&'}
            wrong = [o for o in duals if ev(expr_d, o) != duals[o]]
            negated_parts = any(isinstance(c, ast.Call) and call_name(c) == 'neg' for c in ast.walk(v))
            if not wrong and negated_parts:
                continue
            bad.append('line %d `%s`: %s' % (r.lineno, src(v, 50), 'for %s the connective of the result is %r, not %r' % (
                wrong[0], ev(expr_d, wrong[0]), duals[wrong[0]]) if wrong else 'the parts are not negated'))
            continue
        bad.append('line %d returns `%s`' % (r.lineno, src(v, 50)))
    res.add('%s :: neg :: negates' % EXPR, not bad, 'returns Op("~", e) (or the dual connective over negated parts)' if not bad else
            '; '.join(bad) + ' -- the exit condition I & neg(b) --> Q of a loop with a compound test is weaker than it must be', f.loc)
    return res


def rule_p6(repo):
    """The assignment rule substitutes the assigned expression into the postcondition.  Under a binder the
    substitution must not capture: on every path of the binder's subst to the rebuilt binder, (a) the bound name was
    tested against the domain of the substitution and (b) the substituted values were tested for the bound name -
    otherwise `x := k` turns the postcondition `forall k. x <= k` into the valid `forall k. k <= k`."""
    res = RuleResult('C20.P6', 'substitution under a binder refuses (or avoids) capture of the bound variable', floor=1)
    base = repo.cls(EXPR, 'Expr')
    n = 0
    for c in repo.subclasses_of(base):
        if c.module.rel != EXPR:
            continue
        sub, init = c.methods.get('subst'), c.methods.get('__init__')
        if sub is None or init is None:
            continue
        # a binder: a field that is checked to be a Var next to a field that is an Expr
        binder = None
        for call in ast.walk(init.node):
            if isinstance(call, ast.Call) and call_name(call) == 'typecheck.checkinstance':
                a = call.args[1:]
                kinds = {v.id: t for v, t in zip(a[0::2], a[1::2]) if isinstance(v, ast.Name)}
                vs = [k for k, t in kinds.items() if is_name(t, 'Var')]
                es = [k for k, t in kinds.items() if is_name(t, 'Expr')]
                if vs and es:
                    binder = vs[0]
        if binder is None:
            continue
        n += 1
        inst_p = sub.params()[1]
        cfg = cfg_of(sub.node)
        builds = [r for r in cfg.return_nodes() if r.ast.value is not None and isinstance(r.ast.value, ast.Call) and call_name(r.ast.value) == c.name]
        need(builds, '%s.subst: the rebuilt binder was not found' % c.name)

        from ..flow import flow_of
        sfl = flow_of(sub.node)

        def mentions(e, *names):
            txt = src(sfl.inline(e), 400)
            return all(nm in txt for nm in names)
        dom = [t for t in cfg.test_nodes() if compare_parts(t.ast) and compare_parts(t.ast)[0] in (ast.In, ast.NotIn) and
               mentions(t.ast, 'self.' + binder) and is_name(compare_parts(t.ast)[2], inst_p)]
        over_values = set()
        for l in ast.walk(sub.node):
            if isinstance(l, ast.For) and ('%s.values()' % inst_p in src(l.iter, 200) or '%s.items()' % inst_p in src(l.iter, 200)):
                over_values |= {x.id for x in ast.walk(l.target) if isinstance(x, ast.Name)}
        cap = [t for t in cfg.test_nodes() if mentions(t.ast, 'self.' + binder) and
               ('%s.values()' % inst_p in src(t.ast, 400) or '%s.items()' % inst_p in src(t.ast, 400) or
                any(isinstance(x, ast.Name) and x.id in over_values for x in ast.walk(t.ast)))]
        problems = []
        for b in builds:
            for what, tests, pol in (('the domain of the substitution is not tested for the bound name', dom, None),
                                     ('the substituted expressions are not tested for the bound name', cap, None)):
                if not tests:
                    problems.append(what)
                    continue
                # every path to the construction passes such a test on the side that does not raise
                edges = []
                for t in tests:
                    for (bnode, label) in t.succ:
                        reach = cfg.reach_from([bnode])
                        if b.id in reach:
                            edges.append((t.id, label))
                # a test inside a loop over the substituted values: leaving the loop means every value passed it
                for it in [n for n in cfg.nodes if n.kind == 'iter' and ('%s.values()' % inst_p in src(n.ast.iter, 200) or '%s.items()' % inst_p in src(n.ast.iter, 200))]:
                    entry = [bn for bn, l in it.succ if l == 'loop']
                    if entry and cfg.path_avoiding(it, skip_edges=edges, start=entry[0]) is None:
                        edges.append((it.id, 'done'))
                if cfg.path_avoiding(b, skip_edges=edges) is not None:
                    problems.append(what + ' on every path')
        problems = sorted(set(problems))
        res.add('%s :: %s.subst :: capture-avoiding' % (EXPR, c.name), not problems,
                'the bound name is tested against the domain and against the substituted expressions before the binder is rebuilt' if not problems else
                '; '.join(problems) + ' -- `x := k` turns the postcondition `forall k. x <= k` into `forall k. k <= k`: the triple is accepted although it is false',
                sub.loc)
    need(n >= 1, 'imperative/expr.py: no binder class found')
    return res


OP_MEANING = {'+': 'plus', '-': 'minus', '*': 'times', '==': 'iff', '!=': ('not', 'iff'), '<=': 'less_eq', '<': 'less', '>=': 'greater_eq', '>': 'greater',
              '&': 'and', '|': 'or', '-->': 'imp', '<-->': 'iff'}


def rule_p7(repo):
    """Verification conditions reach the prover through Op.convert_hol only.  For a binary operator the HOL
    term must be the operator of that name over both converted operands, in that order: each case `self.op == "X"`
    returns an expression whose table (over small integers / truth values of the two operands) is the table of X, and
    no answer is given before the operator was looked at (dropping a "neutral" 0 turns 0 - e into e)."""
    from ..truthtable import value
    import itertools
    res = RuleResult('C20.P7', 'the HOL form of a binary operator is that operator over both converted operands', floor=10)
    f = repo.func(EXPR, 'Op.convert_hol')
    cfg = cfg_of(f.node)
    # the binary branch: `e1, e2 = self.args[0].convert_hol(..), self.args[1].convert_hol(..)`
    bind = [n for n in cfg.stmt_nodes(ast.Assign) if isinstance(n.ast.targets[0], (ast.Tuple, ast.List)) and len(n.ast.targets[0].elts) == 2 and
            'convert_hol' in src(n.ast.value, 200)]
    need(bind, 'Op.convert_hol: conversion of the two operands not found')
    a, b = [t.id for t in bind[0].ast.targets[0].elts]

    def ev(e):
        if isinstance(e, ast.Name) and e.id in (a, b):
            return ('atom', e.id)
        if isinstance(e, ast.BinOp) and isinstance(e.op, (ast.Add, ast.Sub, ast.Mult)):
            return ({ast.Add: 'plus', ast.Sub: 'minus', ast.Mult: 'times'}[type(e.op)], ev(e.left), ev(e.right))
        if isinstance(e, ast.Compare) and len(e.ops) == 1 and isinstance(e.ops[0], (ast.Lt, ast.LtE, ast.Gt, ast.GtE)):
            return ({ast.Lt: 'less', ast.LtE: 'less_eq', ast.Gt: 'greater', ast.GtE: 'greater_eq'}[type(e.ops[0])], ev(e.left), ev(e.comparators[0]))
        if isinstance(e, ast.Call):
            nm = call_name(e).split('.')[-1]
            if nm == 'Not' and len(e.args) == 1:
                return ('not', ev(e.args[0]))
            if nm in ('Eq', 'And', 'Or', 'Implies') and len(e.args) == 2:
                return ({'Eq': 'iff', 'And': 'and', 'Or': 'or', 'Implies': 'imp'}[nm], ev(e.args[0]), ev(e.args[1]))
        raise ValueError(src(e, 40))
    after = cfg.reach_from([bn for bn, _l in bind[0].succ])
    rets = [r for r in cfg.return_nodes() if r.id in after]
    need(len(rets) >= 10, 'Op.convert_hol: the cases of the binary operators were not found')
    for r in rets:
        # the operator this return answers for: the `self.op == "X"` test whose true edge dominates it
        ops = []
        for t in cfg.test_nodes():
            cp = compare_parts(t.ast)
            if cp and cp[0] is ast.Eq and path_of(cp[1]) == 'self.op' and isinstance(cp[2], ast.Constant) and t.id in after:
                if cfg.path_avoiding(r, skip_edges=[(t.id, 'true')], start=bind[0]) is None:
                    ops.append(cp[2].value)
        key = '%s :: Op.convert_hol :: case(%s)' % (EXPR, ops[0] if ops else 'line-%s' % src(r.ast.value, 20))
        if not ops:
            res.add(key, False, 'line %d answers `%s` before the operator was looked at: for some operator this is not its meaning '
                    '(0 - e became e: the condition proved is not the one displayed)' % (r.lineno, src(r.ast.value, 30)), '%s:%d' % (EXPR, r.lineno))
            continue
        op = ops[0]
        need(op in OP_MEANING, 'Op.convert_hol: operator %r has no entry in the table of meanings' % op)
        try:
            got = ev(r.ast.value)
        except ValueError as ex:
            res.add(key, False, 'line %d: `%s` is not an expression over the two converted operands' % (r.lineno, ex), '%s:%d' % (EXPR, r.lineno))
            continue
        want = OP_MEANING[op]
        want = ('not', ('iff', ('atom', a), ('atom', b))) if isinstance(want, tuple) else (want, ('atom', a), ('atom', b))
        dom = (False, True) if op in ('&', '|', '-->', '<-->') else (-1, 0, 1, 2)
        diff = None
        for x, y in itertools.product(dom, dom):
            sg = {a: x, b: y}
            if value(got, sg) != value(want, sg):
                diff = sg
                break
        res.add(key, diff is None, 'same table as %s' % op if diff is None else
                'line %d: `%s` differs from `%s %s %s` at %s' % (r.lineno, src(r.ast.value, 30), a, op, b, diff), '%s:%d' % (EXPR, r.lineno))
    return res


def rule_p8(repo):
    """If-then-else and forall conditions are printed with their operands bare: `if b then A else B`, `forall x. B` - the
    printed operand can be any condition, an implication included, and the last one runs as far to the right as the text
    goes (Op.__str__ brackets a whole if / forall operand for that reason).  The grammar must read them the same way:
    in the production for such a form every operand is the widest condition level.  A narrower last operand (`neg`) makes
    `if b then A else B | C` read as `(if b then A else B) | C`: the verification condition computed for a conditional
    statement is re-read as a weaker formula."""
    res = RuleResult('C20.P8', 'a keyword form printed with bare operands is read with every operand at the widest level', floor=2)
    m = repo.module(EXPR)
    # printer: classes whose __str__ is one format string with bare %s operands, keyed by their keywords
    forms = {}
    for c in m.classes.values():
        f = c.methods.get('__str__')
        if f is None:
            continue
        rets = [r for r in ast.walk(f.node) if isinstance(r, ast.Return)]
        if len(rets) != 1 or not (isinstance(rets[0].value, ast.BinOp) and isinstance(rets[0].value.op, ast.Mod) and
                                  isinstance(rets[0].value.left, ast.Constant) and isinstance(rets[0].value.left.value, str)):
            continue
        fmt = rets[0].value.left.value
        words = re.findall(r'[a-z]+', fmt.replace('%s', ' '))
        if words and fmt.strip().startswith(words[0]) and '(' not in fmt:
            forms[tuple(words)] = (c.name, fmt, f)
    need(forms, 'imperative/expr.py: no keyword form with bare operands found (if-then-else / forall)')
    text = grammar_text(repo.module(PARSER))
    lad = Ladder(text, 'cond')
    top = lad.order[-1]
    for p in lad.productions:
        kws = tuple(lad.token(sname) for sname, is_t in p.symbols if is_t and (lad.token(sname) or '').isalpha())
        if not kws or kws not in forms or not p.symbols[0][1]:
            continue
        cname, fmt, f = forms[kws]
        operands = [sname for sname, is_t in p.symbols if not is_t]
        narrow = [o for o in operands if o in lad.level and o != top]
        res.add('%s :: production(%s) :: operands-as-wide-as-printed' % (PARSER, ' '.join(kws)), not narrow,
                'every condition operand is read at level `%s`; %s prints them bare ("%s")' % (top, cname, fmt) if not narrow else
                'the production reads an operand at level `%s`, but %s.__str__ prints every operand bare ("%s"): a compound operand in that place is '
                'cut short on re-reading - `if b then A else B | C` comes back as `(if b then A else B) | C`' % (narrow[0], cname, fmt), '%s:1' % PARSER)
    return res

def rule_p9(repo):
    """The text of a verification condition is written once, from the condition (`str(vc)`), next to its HOL form.  The
    listing of a program also edits lines after the fact (the `;` between two commands is appended to the line in front).
    Such an edit must pick a *command* line: a condition whose text is changed afterwards no longer says what its HOL
    form says, and with a `;` at its end it cannot be read back at all.  Every later store into the text of a line is
    behind a test that the line is a command line."""
    res = RuleResult('C20.P9', 'the text of a listed verification condition is never edited after it was written', floor=1)
    f = repo.func(COM, 'Com.get_lines')
    n_edits = 0
    for g in [f] + list(f.nested.values()):
        cfg = cfg_of(g.node)
        for n in cfg.nodes:
            if n.kind != 'stmt' or not isinstance(n.ast, (ast.AugAssign, ast.Assign)):
                continue
            tgts = [n.ast.target] if isinstance(n.ast, ast.AugAssign) else n.ast.targets
            for t in tgts:
                if not (isinstance(t, ast.Subscript) and isinstance(t.slice, ast.Constant) and t.slice.value == 'str'):
                    continue
                n_edits += 1
                line = src(t.value)

                def is_com(e, pol, line=line):
                    cp = compare_parts(e)
                    if not cp:
                        return False
                    txt = (src(cp[1]), src(cp[2]))
                    about = any(x in (line + "['ty']", line + '["ty"]') for x in txt)
                    return about and ((cp[0] is ast.Eq and pol and ("'com'" in txt or '"com"' in txt)) or
                                      (cp[0] is ast.NotEq and not pol and ("'com'" in txt or '"com"' in txt)))
                edges = cfg.establishing_edges(is_com)
                ok = bool(edges) and cfg.path_avoiding(n, skip_edges=edges) is None
                res.add('%s :: %s :: edit(%s[str])' % (COM, g.qualname, line), ok,
                        'only a line of type com is edited' if ok else
                        'line %d changes the text of `%s` whatever kind of line it is: after a loop that is the condition for leaving the loop, which is then shown '
                        'as `.. --> a == 0;` and cannot be read back' % (n.lineno, line), '%s:%d' % (COM, n.lineno))
    need(n_edits, 'Com.get_lines: no later edit of a listed line found (the separator of a sequence)')
    return res

class _Unreadable(Exception):
    pass


def _pure_value(funcnode, arg):
    """value of a small pure function of one string for the argument `arg`, read off its syntax tree: assignments, for over a string /
    range, if, return, integer arithmetic, comparisons, ord / len / int / range.  Raises _Unreadable for anything else and TypeError /
    ValueError where Python would (ord of a longer string): the caller takes such a name as not admitted."""
    import operator
    env = {funcnode.args.args[0].arg: arg}
    BIN = {ast.Add: operator.add, ast.Sub: operator.sub, ast.Mult: operator.mul, ast.FloorDiv: operator.floordiv, ast.Mod: operator.mod, ast.Pow: operator.pow}
    CMP = {ast.Eq: operator.eq, ast.NotEq: operator.ne, ast.Lt: operator.lt, ast.LtE: operator.le, ast.Gt: operator.gt, ast.GtE: operator.ge}

    class Ret(Exception):
        def __init__(self, v):
            self.v = v

    def ev(e):
        if isinstance(e, ast.Constant):
            return e.value
        if isinstance(e, ast.Name):
            if e.id in env:
                return env[e.id]
            raise _Unreadable(e.id)
        if isinstance(e, ast.BinOp) and type(e.op) in BIN:
            return BIN[type(e.op)](ev(e.left), ev(e.right))
        if isinstance(e, ast.UnaryOp) and isinstance(e.op, ast.USub):
            return -ev(e.operand)
        if isinstance(e, ast.Compare) and len(e.ops) == 1 and type(e.ops[0]) in CMP:
            return CMP[type(e.ops[0])](ev(e.left), ev(e.comparators[0]))
        if isinstance(e, ast.BoolOp):
            vals = [ev(v) for v in e.values]
            return all(vals) if isinstance(e.op, ast.And) else any(vals)
        if isinstance(e, ast.Subscript):
            return ev(e.value)[ev(e.slice)]
        if isinstance(e, ast.Call) and isinstance(e.func, ast.Name) and e.func.id in ('ord', 'len', 'int', 'range', 'reversed', 'enumerate') and not e.keywords:
            return {'ord': ord, 'len': len, 'int': int, 'range': range, 'reversed': lambda x: list(reversed(x)), 'enumerate': lambda x: list(enumerate(x))}[e.func.id](*[ev(a) for a in e.args])
        raise _Unreadable(src(e, 40))

    def run(stmts):
        for st in stmts:
            if isinstance(st, ast.Expr) and isinstance(st.value, ast.Constant):
                continue
            if isinstance(st, ast.Assign) and len(st.targets) == 1 and isinstance(st.targets[0], ast.Name):
                env[st.targets[0].id] = ev(st.value)
            elif isinstance(st, ast.AugAssign) and isinstance(st.target, ast.Name) and type(st.op) in BIN:
                env[st.target.id] = BIN[type(st.op)](env[st.target.id], ev(st.value))
            elif isinstance(st, ast.For) and not st.orelse:
                for item in ev(st.iter):
                    if isinstance(st.target, ast.Name):
                        env[st.target.id] = item
                    elif isinstance(st.target, ast.Tuple) and all(isinstance(x, ast.Name) for x in st.target.elts):
                        for x, y in zip(st.target.elts, item):
                            env[x.id] = y
                    else:
                        raise _Unreadable('loop target')
                    run(st.body)
            elif isinstance(st, ast.If):
                run(st.body if ev(st.test) else st.orelse)
            elif isinstance(st, ast.Return):
                raise Ret(ev(st.value))
            else:
                raise _Unreadable(src(st, 40))
    try:
        run(funcnode.body)
    except Ret as r:
        return r.v
    raise _Unreadable('no return')


def rule_p10(repo):
    """The HOL form of a program reads and writes the state through *locations*: `str_to_nat(name)` turns the name of a program variable
    into the natural number its value is stored under.  Symbolic evaluation agrees with running the program only if two different
    names never share a location.  The function is a few lines of integer arithmetic on the characters of the name; its value on every
    name up to three letters over a sample of the alphabet is read off the syntax tree (a name on which Python would raise - `ord` of a
    longer string - is not a name the parser admits), and the values have to be pairwise different.  Base 26 with a = 0 is not
    injective (a leading a is a leading zero: ab and b both give 1), and `b := 1; ab := 2` then proves b = 2."""
    res = RuleResult('C20.P10', 'different names of program variables are stored at different locations', floor=1)
    f = repo.func('imperative/parser.py', 'str_to_nat')
    import itertools
    letters = 'abcyz'
    names = [''.join(t) for k in (1, 2, 3) for t in itertools.product(letters, repeat=k)]
    seen, clash, unreadable = {}, None, None
    admitted = 0
    for nm in names:
        try:
            v = _pure_value(f.node, nm)
        except _Unreadable as e:
            unreadable = str(e)
            break
        except (TypeError, ValueError, IndexError):
            continue
        admitted += 1
        if v in seen and clash is None:
            clash = (seen[v], nm, v)
        seen.setdefault(v, nm)
    need(unreadable is None, 'imperative/parser.py :: str_to_nat uses a construct the reader does not know: %s' % unreadable)
    need(admitted >= len(letters), 'imperative/parser.py :: str_to_nat admits fewer names than the sample of one-letter names')
    res.add('imperative/parser.py :: str_to_nat :: injective-on-sample', clash is None,
            '%d sample names admitted, pairwise different locations' % admitted if clash is None else
            'the names `%s` and `%s` are both stored at location %s: two program variables share one cell, and `%s := 1; %s := 2` is "proved" to leave %s = 2' % (
                clash[0], clash[1], clash[2], clash[0], clash[1], clash[0]), f.loc)
    return res


def rules(repo):
    p1 = rule_p1(repo)
    if any(not i.ok for i in p1.instances):
        # with an ambiguous grammar there is no nesting for the printer's brackets to agree with
        return [p1, rule_p3(repo), rule_p4(repo), rule_p5(repo), rule_p6(repo), rule_p7(repo), rule_p8(repo), rule_p9(repo), rule_p10(repo)]
    return [p1, rule_p2(repo), rule_p3(repo), rule_p4(repo), rule_p5(repo), rule_p6(repo), rule_p7(repo), rule_p8(repo), rule_p9(repo), rule_p10(repo)]
