"""C07 - printer table <-> grammar agreement (bracket omission justified by the grammar; token agreement;
printer memo key)."""
import ast

from ..core import RuleResult, need, AnalysisError
from ..astutil import src, call_name, call_attr, is_name, returns_of, names_in, path_of, walk_no_nested
from ..grammar import Ladder, grammar_text
from ..tables import constructor_rows
from .. import holtypes as ht

PARSER = 'syntax/parser.py'
PPRINT = 'syntax/pprint.py'
OPERATOR = 'syntax/operator.py'

NOT_DECIDED = ('minimal type-annotation inference (infer_printed_type), numerals, variant names of bound variables, '
               'line breaking; round trip of types, sequents, instantiations (algorithmic, runtime)')
ASSUMPTIONS = ['lark LALR resolves the shift/reduce conflict of an ambiguous production `X: X op X` by shifting (right nesting)',
               'constants are used at the types declared in library/*.json (overloaded constants at their declared instances)']


# ---------------------------------------------------------------------- printer model
class PrinterModel:
    """The bracket decisions of syntax/pprint.py::get_ast_term, read from its source."""

    def __init__(self, repo):
        self.repo = repo
        self.helper = repo.func(PPRINT, 'get_ast_term.<locals>.helper')
        self.gpp = repo.func(PPRINT, 'get_ast_term.<locals>.get_priority_pair')
        self.env = {}
        m = repo.module(PPRINT)
        from ..tables import module_constants
        self.consts = module_constants(m)
        self.opconsts = module_constants(repo.module(OPERATOR))
        # priorities handed out by get_priority_pair
        self.kind_prio = {}
        for r in returns_of(self.gpp.node):
            if isinstance(r.value, ast.Tuple) and len(r.value.elts) == 2 and isinstance(r.value.elts[1], ast.Name):
                kind = r.value.elts[1].id
                p = r.value.elts[0]
                if isinstance(p, ast.Constant):
                    self.kind_prio.setdefault(kind, set()).add(p.value)
                else:
                    self.kind_prio.setdefault(kind, set()).add('row')
        for k in ('ATOM', 'BINDER', 'FUN_APPL', 'UNARY', 'BINARY'):
            need(k in self.kind_prio, 'pprint.get_priority_pair: no return for kind %s' % k)
        need(all(len(self.kind_prio[k]) == 1 for k in ('ATOM', 'BINDER', 'FUN_APPL')),
             'pprint.get_priority_pair: more than one priority for ATOM / BINDER / FUN_APPL')
        self.prio_atom = next(iter(self.kind_prio['ATOM']))
        self.prio_binder = next(iter(self.kind_prio['BINDER']))
        self.prio_funappl = next(iter(self.kind_prio['FUN_APPL']))
        # bracket tests: `if <test>: X_ast = Bracket(X_ast)`
        self.tests = {}
        for n in walk_no_nested(self.helper.node):
            if isinstance(n, ast.If) and len(n.body) == 1 and isinstance(n.body[0], ast.Assign) and \
                    isinstance(n.body[0].value, ast.Call) and call_name(n.body[0].value) == 'Bracket' and \
                    isinstance(n.body[0].targets[0], ast.Name):
                var = n.body[0].targets[0].id
                # a decision delegated to a small helper (`needs_bracket(arg, op_data, side)`) is read through the helper
                from ..idioms import inline_pure_helpers
                helpers = dict(self.helper.parent.nested) if self.helper.parent is not None else {}
                helpers.update(self.helper.nested)
                helpers.pop(self.helper.name, None)
                test = inline_pure_helpers(n.test, helpers)
                test = self._resolve_names(test)
                n = ast.If(test=test, body=n.body, orelse=n.orelse)
                mentions_row = any(isinstance(x, ast.Attribute) and x.attr == 'priority' for x in ast.walk(n.test))
                mentions_assoc = any(isinstance(x, ast.Attribute) and x.attr == 'assoc' for x in ast.walk(n.test))
                if mentions_assoc:
                    key = 'binary:' + var
                elif mentions_row:
                    key = 'unary:' + var
                else:
                    key = 'appl:' + var
                self.tests[key] = n.test
        for k in ('binary:arg1_ast', 'binary:arg2_ast', 'unary:arg_ast', 'appl:fun_ast', 'appl:arg_ast'):
            need(k in self.tests, 'pprint.get_ast_term.helper: bracket decision %s not found' % k)

    def _resolve_names(self, test, depth=0):
        """the bracket decision with the locals it was split into read through: a name given a boolean value once (`left_assoc = ..`), and a
        name assigned in both branches of one `if` (`if c: b = X` / `else: b = Y`, read as `X if c else Y`)"""
        import copy
        if depth > 4:
            return test
        helper = self.helper.node
        single, branched = {}, {}
        counts = {}
        for a in walk_no_nested(helper):
            if isinstance(a, ast.Assign) and len(a.targets) == 1 and isinstance(a.targets[0], ast.Name):
                counts[a.targets[0].id] = counts.get(a.targets[0].id, 0) + 1
        for a in walk_no_nested(helper):
            if isinstance(a, ast.Assign) and len(a.targets) == 1 and isinstance(a.targets[0], ast.Name) and counts[a.targets[0].id] == 1 and \
                    isinstance(a.value, (ast.Compare, ast.BoolOp, ast.UnaryOp)):
                single[a.targets[0].id] = a.value
            if isinstance(a, ast.If) and len(a.body) == 1 and len(a.orelse) == 1 and all(
                    isinstance(x, ast.Assign) and len(x.targets) == 1 and isinstance(x.targets[0], ast.Name) for x in (a.body[0], a.orelse[0])) and \
                    a.body[0].targets[0].id == a.orelse[0].targets[0].id and counts.get(a.body[0].targets[0].id) == 2:
                branched[a.body[0].targets[0].id] = ast.IfExp(test=a.test, body=a.body[0].value, orelse=a.orelse[0].value)
        model = self

        class T(ast.NodeTransformer):
            def visit_Name(self, node):
                if isinstance(node.ctx, ast.Load) and node.id in single:
                    return model._resolve_names(copy.deepcopy(single[node.id]), depth + 1)
                if isinstance(node.ctx, ast.Load) and node.id in branched:
                    return model._resolve_names(copy.deepcopy(branched[node.id]), depth + 1)
                return node
        return ast.fix_missing_locations(T().visit(copy.deepcopy(test)))

    def _eval(self, e, env):
        if isinstance(e, ast.Compare) and len(e.ops) == 1 and isinstance(e.ops[0], (ast.In, ast.NotIn)) and isinstance(e.comparators[0], (ast.Tuple, ast.List, ast.Set)):
            a = self._eval(e.left, env)
            r = a in [self._eval(x, env) for x in e.comparators[0].elts]
            return r if isinstance(e.ops[0], ast.In) else not r
        if isinstance(e, ast.BoolOp):
            vals = [self._eval(v, env) for v in e.values]
            return all(vals) if isinstance(e.op, ast.And) else any(vals)
        if isinstance(e, ast.UnaryOp) and isinstance(e.op, ast.Not):
            return not self._eval(e.operand, env)
        if isinstance(e, ast.Compare) and len(e.ops) == 1:
            a, b = self._eval(e.left, env), self._eval(e.comparators[0], env)
            op = e.ops[0]
            if isinstance(op, ast.Eq):
                return a == b
            if isinstance(op, ast.NotEq):
                return a != b
            if isinstance(op, ast.Lt):
                return a < b
            if isinstance(op, ast.LtE):
                return a <= b
            if isinstance(op, ast.Gt):
                return a > b
            if isinstance(op, ast.GtE):
                return a >= b
        if isinstance(e, ast.Constant):
            return e.value
        if isinstance(e, ast.IfExp):
            return self._eval(e.body, env) if self._eval(e.test, env) else self._eval(e.orelse, env)
        if isinstance(e, ast.Call) and call_name(e) == 'get_priority':
            return env['q']
        if isinstance(e, ast.Subscript) and isinstance(e.value, ast.Call) and call_name(e.value) == 'get_priority_pair' and isinstance(e.slice, ast.Constant):
            return env['q'] if e.slice.value == 0 else env['kind']
        if isinstance(e, ast.Name):
            if e.id.endswith('_prior'):
                return env['q']
            if e.id.endswith('_type'):
                return env['kind']
            if e.id in ('ATOM', 'BINDER', 'FUN_APPL', 'UNARY', 'BINARY'):
                return e.id
            if e.id in self.consts:
                return self.consts[e.id]
        if isinstance(e, ast.Attribute):
            if e.attr == 'priority':
                return env['p']
            if e.attr == 'assoc':
                return env['assoc']
            if e.attr in ('LEFT', 'RIGHT') and e.attr in self.opconsts:
                return self.opconsts[e.attr]
        if isinstance(e, ast.Call) and call_attr(e) == 'is_abs' and not e.args:
            return bool(env.get('is_abs'))
        raise AnalysisError('pprint bracket test uses a construct the printer model does not know: %s' % src(e))

    def brackets(self, which, **env):
        return bool(self._eval(self.tests[which], env))


# ---------------------------------------------------------------------- parser callbacks
def callback_constants(repo):
    """HOLTransformer method -> HOL constant it builds (for operator callbacks)."""
    cls = repo.cls(PARSER, 'HOLTransformer')
    special = {'And': 'conj', 'Or': 'disj', 'Implies': 'implies', 'Not': 'neg'}
    res = {}
    from ..inline import inlined, contains_call
    for name, f in cls.methods.items():
        consts = set()
        f = inlined(f, contains_call('Const', *special))[0]
        for r in returns_of(f.node):
            v = r.value
            if isinstance(v, ast.Call):
                if isinstance(v.func, ast.Call) and call_name(v.func) == 'Const' and v.func.args and \
                        isinstance(v.func.args[0], ast.Constant):
                    consts.add(v.func.args[0].value)
                elif call_name(v) in special:
                    consts.add(special[call_name(v)])
        if len(consts) == 1:
            res[name] = next(iter(consts))
    return res


class Tables:
    def __init__(self, repo):
        self.repo = repo
        opmod = repo.module(OPERATOR)
        self.rows, self.env = constructor_rows(opmod, 'op_data_raw', 'OperatorData')
        self.binders, _ = constructor_rows(opmod, 'binder_data_raw', 'BinderData')
        for r in self.rows + self.binders:
            if r.get('unicode_op') is None:
                r['unicode_op'] = r['ascii_op']
            if r.get('key') is None:
                r['key'] = r['fun_name']
        self.LEFT, self.RIGHT = self.env['LEFT'], self.env['RIGHT']
        self.CONST, self.UNARY, self.BINARY = self.env['CONST'], self.env['UNARY'], self.env['BINARY']
        self.ladder = Ladder(grammar_text(repo.module(PARSER)), 'term')
        self.callbacks = callback_constants(repo)
        self.bin_prods = {}
        for p, l, tok, r in self.ladder.binary_productions():
            self.bin_prods.setdefault(tok, []).append((p, l, r))
        self.un_prods = {}
        for p, tok, a in self.ladder.unary_productions():
            self.un_prods.setdefault(tok, []).append((p, a))

    def production_of(self, row):
        """(origin, left, right) for a binary row / (origin, arg) for a unary row, from its ascii token"""
        tok = row['ascii_op'].strip()
        if row['arity'] == self.BINARY:
            ps = self.bin_prods.get(tok, [])
            return ps[0] if ps else None
        if row['arity'] == self.UNARY:
            ps = self.un_prods.get(tok, [])
            return ps[0] if ps else None
        return None


# ---------------------------------------------------------------------- W1
def _row_types(sig, row, tb):
    """[(argument types, result type)] at which the operator of this row can occur"""
    name = row['fun_name']
    out = []
    for t in sig.usable_types(name):
        args, res = ht.strip_fun(t)
        n = 2 if row['arity'] == tb.BINARY else 1
        if len(args) < n:
            continue
        rest = t
        a = []
        for _ in range(n):
            a.append(rest[2][0])
            rest = rest[2][1]
        if row['key'] == 'iff':
            s = {}
            if not (ht.unify(a[0], ht.BOOL, s)):
                continue
            a = [ht.BOOL, ht.BOOL]
            rest = ht.BOOL
        out.append((a, rest))
    return out


def _realisable(sig, tb, parent, side_index, child):
    """Can the result of `child` be the side_index-th argument of `parent` in a well-typed term?"""
    if child is None:
        return True, 'any type'
    for pi, (pargs, _pres) in enumerate(_row_types(sig, parent, tb)):
        for ci, (_cargs, cres) in enumerate(_row_types(sig, child, tb)):
            s = {}
            pa = ht.rename(pargs[side_index], '_p')
            cr = ht.rename(cres, '_c')
            if ht.unify(pa, cr, s):
                # the `=` row is used only at non-boolean types (at bool the iff row prints)
                if parent['key'] == 'equals' and ht.walk(pa, s) == ht.BOOL:
                    continue
                return True, '%s at %s' % (child['fun_name'], ht.show(ht.walk(cr, s)))
    return False, ''


def rule_w1(repo):
    res = RuleResult('C07.W1', 'wherever the printer omits brackets around an operand, the grammar parses the text back to the same nesting', floor=200)
    pm = PrinterModel(repo)
    tb = Tables(repo)
    sig = ht.Signature(repo.root)
    need(sig.files >= 20, 'library/*.json: only %d theory files readable' % sig.files)
    lad = tb.ladder
    for nt in ('atom', 'comb'):
        need(nt in lad.level, 'grammar ladder has no nonterminal %s' % nt)
    # child constructs
    children = []
    for r in tb.rows:
        if r['arity'] == tb.CONST:
            continue
        p = tb.production_of(r)
        if p is None:
            continue
        children.append((r['key'], r['priority'], 'UNARY' if r['arity'] == tb.UNARY else 'BINARY', lad.level[p[0].origin], r, p))
    children.append(('application', pm.prio_funappl, 'FUN_APPL', lad.level['comb'], None, None))
    children.append(('atom', pm.prio_atom, 'ATOM', lad.level['atom'], None, None))
    # binders: `%x. t`, `!x. t`, ... are atoms of the grammar that end in an open `term`: written without brackets as an
    # operand they swallow everything that follows (f = %x. x --> A is read as f = (%x. x --> A)), so they must always be bracketed
    OPEN = 999
    children.append(('lambda', pm.prio_binder, 'BINDER', OPEN, None, None))
    children.append(('quantifier', pm.prio_binder, 'BINDER', OPEN, None, None))
    n_checked = 0
    for r in tb.rows:
        if r['arity'] == tb.CONST:
            continue
        prod = tb.production_of(r)
        if prod is None:
            continue          # reported by W2
        if r['arity'] == tb.BINARY:
            p, left_nt, right_nt = prod
            sides = (('left', 0, left_nt, 'binary:arg1_ast'), ('right', 1, right_nt, 'binary:arg2_ast'))
        else:
            p, arg_nt = prod
            sides = (('arg', 0, arg_nt, 'unary:arg_ast'),)
        for side, idx, nt, which in sides:
            need(nt in lad.level, 'operand nonterminal %s of %s is not on the ladder' % (nt, p.origin))
            for ckey, q, kind, clev, crow, cprod in children:
                bracketed = pm.brackets(which, q=q, kind=kind, p=r['priority'], assoc=r.get('assoc'), is_abs=ckey == 'lambda')
                if bracketed:
                    continue
                if clev == OPEN:
                    res.add('%s :: op(%s) :: %s :: child(%s)' % (OPERATOR, r['key'], side, ckey), False,
                            'a %s is printed without brackets as the %s operand of `%s`: its body extends as far to the right as possible, so '
                            'whatever follows the operator application is read as part of the body' % (ckey, side, r['ascii_op'].strip()),
                            '%s:%d' % (OPERATOR, r['_line']))
                    continue
                ok_t, how = _realisable(sig, tb, r, idx, crow)
                if not ok_t:
                    continue
                n_checked += 1
                ok = True
                why = 'level %d <= %s(%d)' % (clev, nt, lad.level[nt])
                if clev > lad.level[nt]:
                    ok = False
                    why = ('printed without brackets, but `%s` is produced by %s (level %d) which the operand position %s '
                           '(level %d) of `%s` cannot derive: the text re-parses with a different nesting or not at all' % (
                               ckey, cprod[0].origin if cprod else '?', clev, nt, lad.level[nt], r['ascii_op'].strip()))
                elif crow is not None and clev == lad.level[nt] == lad.level[p.origin] and r['arity'] == tb.BINARY:
                    # operand of the same ladder level on the recursion side
                    both = left_nt == p.origin and right_nt == p.origin
                    if both and side == 'left' and cprod[0].origin == p.origin:
                        ok = False
                        why = ('production %s is ambiguous (%s op %s); LALR nests it to the right, but the table says LEFT and prints '
                               '(a %s b) %s c without brackets' % (p.origin, p.origin, p.origin, crow['ascii_op'].strip(), r['ascii_op'].strip()))
                res.add('%s :: op(%s) :: %s :: child(%s)' % (OPERATOR, r['key'], side, ckey), ok,
                        why + ('' if crow is None else ' [%s]' % how), '%s:%d' % (OPERATOR, r['_line']))
    # function application as parent
    comb_prods = [p for p in lad.productions if p.origin == 'comb' and len(p.symbols) == 2]
    need(comb_prods, 'grammar: production comb -> comb atom not found')
    fun_nt, arg_nt = comb_prods[0].symbols[0][0], comb_prods[0].symbols[1][0]
    for side, nt, which in (('fun', fun_nt, 'appl:fun_ast'), ('arg', arg_nt, 'appl:arg_ast')):
        for ckey, q, kind, clev, crow, cprod in children:
            if pm.brackets(which, q=q, kind=kind, p=pm.prio_funappl, assoc=None, is_abs=ckey == 'lambda'):
                continue
            ok = clev <= lad.level[nt]
            res.add('%s :: application :: %s :: child(%s)' % (PPRINT, side, ckey), ok,
                    'level %d <= %s(%d)' % (clev, nt, lad.level[nt]) if ok else
                    '`%s` is printed without brackets in %s position but %s cannot derive it' % (ckey, side, nt), pm.helper.loc)
    res.info['pairs_where_brackets_are_omitted'] = n_checked
    res.info['ladder'] = lad.order
    return res


# ---------------------------------------------------------------------- W2
def rule_w2(repo):
    res = RuleResult('C07.W2', 'every operator / binder token of the table is a terminal of a production whose callback builds that constant', floor=30)
    tb = Tables(repo)
    lad = tb.ladder
    all_tokens = {v for v in lad.terminals.values() if v}
    for r in tb.rows:
        if r['arity'] == tb.CONST:
            toks = [r['ascii_op'].strip(), r['unicode_op'].strip()]
            ok = all(t in all_tokens or t.isdigit() for t in toks)
            res.add('%s :: op(%s) :: token' % (OPERATOR, r['key']), ok,
                    'constant token known to the grammar' if ok else 'token %s not in the grammar' % toks,
                    '%s:%d' % (OPERATOR, r['_line']), nontrivial=False)
            continue
        prods_tbl = tb.bin_prods if r['arity'] == tb.BINARY else tb.un_prods
        problems = []
        origins = set()
        for tok in {r['ascii_op'].strip(), r['unicode_op'].strip()}:
            ps = prods_tbl.get(tok)
            if not ps:
                problems.append('token %r has no %s production' % (tok, 'binary' if r['arity'] == tb.BINARY else 'prefix'))
                continue
            for p in ps:
                cb = p[0].callback
                const = tb.callbacks.get(cb)
                origins.add(p[0].origin)
                if const != r['fun_name']:
                    problems.append('token %r is parsed by callback %s which builds %s, the table row says %s' % (
                        tok, cb, const, r['fun_name']))
        if len(origins) > 1:
            problems.append('ascii and unicode tokens sit on different grammar levels %s' % sorted(origins))
        res.add('%s :: op(%s) :: token' % (OPERATOR, r['key']), not problems,
                'ascii/unicode tokens parse to %s' % r['fun_name'] if not problems else '; '.join(problems),
                '%s:%d' % (OPERATOR, r['_line']))
    # conversely: every operator production has a row
    row_tokens = {(r['arity'], t) for r in tb.rows for t in (r['ascii_op'].strip(), r['unicode_op'].strip())}
    for p, l, tok, rr in lad.binary_productions():
        ok = (tb.BINARY, tok) in row_tokens
        res.add('%s :: production(%s %s) :: has-row' % (PARSER, p.origin, tok), ok,
                'printed by a table row' if ok else 'the parser accepts infix %r but no operator row prints it' % tok,
                '%s:1' % PARSER, nontrivial=False)
    # binders
    cls = repo.cls(PARSER, 'HOLTransformer')
    for b in tb.binders:
        toks = {b['ascii_op'].strip(), b['unicode_op'].strip()}
        found = {}
        for p in lad.productions:
            if p.origin == 'atom' and p.symbols and p.symbols[0][1] and lad.token(p.symbols[0][0]) in toks:
                found[lad.token(p.symbols[0][0])] = tb.callbacks.get(p.callback) or _binder_const(cls, p.callback)
        problems = ['token %r has no binder production' % t for t in toks if t not in found] + \
                   ['token %r builds %s, row says %s' % (t, c, b['fun_name']) for t, c in found.items() if c != b['fun_name']]
        res.add('%s :: binder(%s) :: token' % (OPERATOR, b['key']), not problems,
                'binder tokens parse to %s' % b['fun_name'] if not problems else '; '.join(problems), '%s:%d' % (OPERATOR, b['_line']))
    return res


def _binder_const(cls, cb):
    f = cls.methods.get(cb)
    if f is None:
        return None
    from ..inline import inlined, contains_call
    f = inlined(f, contains_call('Const'))[0]      # `return self._binder("all", ..)`: the constant is named at the call
    for n in ast.walk(f.node):
        if isinstance(n, ast.Call) and call_name(n) == 'Const' and n.args and isinstance(n.args[0], ast.Constant):
            return n.args[0].value
    return None


# ---------------------------------------------------------------------- W3
def rule_w3(repo):
    res = RuleResult('C07.W3', 'every printer setting read while building the memoised AST is part of the memo key', floor=1)
    f = repo.func(PPRINT, 'get_ast_term')
    key_settings = set()
    # settings read inside the expression(s) assigned to `key`
    for n in walk_no_nested(f.node):
        if isinstance(n, ast.Assign) and any(is_name(t, 'key') for t in n.targets):
            for x in ast.walk(n.value):
                if isinstance(x, ast.Attribute) and is_name(x.value, 'settings'):
                    key_settings.add(x.attr)
    read = {}
    funcs = repo.reachable_funcs([f], depth=2)
    for g in funcs:
        if g.module.rel not in (PPRINT, 'syntax/infertype.py'):
            continue
        top = g
        while top.parent is not None:
            top = top.parent
        if top is not f and g.module.rel == PPRINT and top.name not in ('get_ast_type',):
            continue
        for x in walk_no_nested(g.node):
            if isinstance(x, ast.Attribute) and is_name(x.value, 'settings') and isinstance(x.ctx, ast.Load):
                read.setdefault(x.attr, g.qualname)
    need(read, 'get_ast_term reads no printer setting at all (anchor moved?)')
    for attr, where in sorted(read.items()):
        ok = attr in key_settings
        res.add('%s :: get_ast_term :: setting(%s)' % (PPRINT, attr), ok,
                'part of the memo key' if ok else
                'settings.%s is read in %s while building the cached AST but is not in the memo key: the printed form depends on '
                'what was printed earlier' % (attr, where), f.loc)
    # the term itself is in the key
    has_term = False
    t = f.params()[0]
    for n in walk_no_nested(f.node):
        if isinstance(n, ast.Assign) and any(is_name(x, 'key') for x in n.targets) and t in names_in(n.value):
            has_term = True
    res.add('%s :: get_ast_term :: key-contains-term' % PPRINT, has_term,
            'memo keyed by the term' if has_term else 'memo key does not contain the term', f.loc, nontrivial=False)
    return res


def rule_w4(repo):
    """Sibling agreement of the binder-printing branches: whoever picks a fresh name for a bound
    variable must register it while the body is printed, else an inner binder can pick the same name
    and capture the outer variable in the printed text."""
    res = RuleResult('C07.W4', 'every branch of the printer that names a bound variable registers the name while its body is printed', floor=3)
    f = repo.func(PPRINT, 'get_ast_term.<locals>.helper')
    cfg = cfg_from(f)
    picks = [n for n in cfg.stmt_nodes(ast.Assign) if isinstance(n.ast.value, ast.Call) and
             call_attr(n.ast.value) == 'get_variant_name' and isinstance(n.ast.targets[0], ast.Name)]
    need(len(picks) >= 2, 'pprint.get_ast_term.helper: fewer than two binder branches pick a variant name')
    for p in picks:
        nm = p.ast.targets[0].id
        pool = src(p.ast.value.args[1]) if len(p.ast.value.args) > 1 else '?'
        # the recursive call that prints the body: first helper(...) call reachable from the pick
        reach = cfg.reach_from([b for b, _l in p.succ])
        body_calls = [n for n in cfg.nodes if n.id in reach and n.kind == 'stmt' and any(
            isinstance(c, ast.Call) and is_name(c.func, f.name) and any(isinstance(x, ast.Attribute) and x.attr == 'body' for a in c.args for x in ast.walk(a))
            for c in ast.walk(n.ast))]
        regs = [n for n in cfg.nodes if n.kind == 'stmt' and any(
            isinstance(c, ast.Call) and call_attr(c) == 'append' and src(c.func.value) == pool and c.args and is_name(c.args[0], nm)
            for c in ast.walk(n.ast))]
        unregs = [n for n in cfg.nodes if n.kind == 'stmt' and any(
            isinstance(c, ast.Call) and call_attr(c) == 'remove' and src(c.func.value) == pool and c.args and is_name(c.args[0], nm)
            for c in ast.walk(n.ast))]
        ok = bool(body_calls)
        why = []
        for b in body_calls[:1]:
            if cfg.path_avoiding(b, skip_nodes=regs, start=p) is not None:
                ok = False
                why.append('the body is printed without `%s.append(%s)`' % (pool, nm))
            if cfg.exit.id in cfg.reach_from([x for x, _l in b.succ], skip_nodes=unregs):
                ok = False
                why.append('`%s.remove(%s)` does not follow on every path' % (pool, nm))
        res.add('%s :: get_ast_term.helper :: binder-name@%s' % (PPRINT, src(p.ast.value.args[0], 30)), ok,
                'name registered in %s while the body is printed, removed afterwards' % pool if ok else
                '; '.join(why) or 'no recursive call on the body found', '%s:%d' % (PPRINT, p.lineno))
    return res


def cfg_from(f):
    from ..cfg import cfg_of
    return cfg_of(f.node)


def _listish(flow, name, depth=0):
    """some definition of the local name is a list display / comprehension / list(...) / a subscript of such"""
    if depth > 3 or not flow.is_local(name):
        return False
    for kind, rhs in flow.defs.get(name, []):
        if isinstance(rhs, (ast.List, ast.ListComp)):
            return True
        if isinstance(rhs, ast.Call) and call_name(rhs) == 'list':
            return True
        if isinstance(rhs, ast.Subscript) and isinstance(rhs.value, ast.Name) and rhs.value.id != name and _listish(flow, rhs.value.id, depth + 1):
            return True
        if isinstance(rhs, ast.Name) and rhs.id != name and _listish(flow, rhs.id, depth + 1):
            return True
    return False


def rule_w5(repo):
    """Highlighted output is a list of (text, colour) pairs, and the code that assembles sequents and
    argument lists extends such a list in place (commas_join extends its first item).  That is harmless
    only as long as every printing function hands out a list nobody else holds.  A function that keeps a
    list it returns (in a memo on the AST node, in a module table, in its argument) hands out the same
    object twice, and the second reader sees what the first appended: `A` prints as `A, B`."""
    from ..flow import flow_of, path_base
    from .. import persist
    PRINTER = 'syntax/printer.py'
    res = RuleResult('C07.W5', 'no printing function returns a list that it also keeps, while consumers of printed output modify it in place', floor=20)
    mods = [repo.module(PPRINT), repo.module(PRINTER)]
    consumers = []
    for m in mods:
        for f in m.functions.values():
            flow = flow_of(f.node)
            params = set(f.params())

            def aliases_argument(e):
                return isinstance(e, ast.Name) and e.id != 'self' and persist.may_alias(flow, e, params - {'self'})
            muts = [mu for mu in persist.mutations_of(f.node, aliases_argument)]
            if muts:
                consumers.append('%s:%d %s (%s)' % (m.rel, muts[0][0], f.qualname, muts[0][1]))
    res.info['in_place_consumers'] = consumers
    glob = {}
    for m in mods:
        glob[m.rel] = set(persist.module_containers(m))
    for m in mods:
        for f in m.functions.values():
            if not any(isinstance(n, ast.Return) and n.value is not None for n in walk_no_nested(f.node, include_root=False)):
                continue
            flow = flow_of(f.node)
            params = set(f.params())

            def outlives(e):
                """the object denoted by e exists before / after the call: reached from a parameter or a module-level table"""
                if isinstance(e, ast.Name) and e.id in glob[m.rel] and not flow.is_local(e.id):
                    return True
                return any(path_base(r) in params or (path_base(r) in glob[m.rel] and not flow.is_local(path_base(r))) for r in flow.resolve(e))
            kept = {}        # local name -> line where it is stored into something that outlives the call
            kept_in = []     # containers (source text) that outlive the call and receive list values
            for n in walk_no_nested(f.node, include_root=False):
                val, base = None, None
                if isinstance(n, ast.Assign) and len(n.targets) == 1 and isinstance(n.targets[0], (ast.Subscript, ast.Attribute)):
                    val, base = n.value, n.targets[0].value
                elif isinstance(n, ast.Call) and isinstance(n.func, ast.Attribute) and n.func.attr in persist.STORE_METHODS and n.args:
                    val, base = n.args[-1], n.func.value
                if val is None or not isinstance(val, ast.Name) or not outlives(base) or not _listish(flow, val.id):
                    continue
                kept[val.id] = n.lineno
                kept_in.append(src(base))
            bad = []
            for n in walk_no_nested(f.node, include_root=False):
                if isinstance(n, ast.Return) and n.value is not None:
                    if isinstance(n.value, ast.Name) and n.value.id in kept:
                        bad.append('returns `%s` (line %d), which it stored at line %d' % (n.value.id, n.lineno, kept[n.value.id]))
                    if isinstance(n.value, ast.Subscript) and src(n.value.value) in kept_in:
                        bad.append('returns an entry of `%s` (line %d), where it keeps lists' % (src(n.value.value), n.lineno))
            others = [c for c in consumers if ' %s (' % f.qualname not in c]
            ok = not bad or not others
            res.add('%s :: %s :: returns-fresh-output' % (m.rel, f.qualname), ok,
                    ('no list is both kept and returned' if not bad else 'keeps what it returns, but nothing modifies printed output in place') if ok else
                    '%s; %s modifies its argument in place: the next reader of the kept list sees the additions (after printing the sequent '
                    'A, B |- C, the term A prints as `A, B`, which does not parse back to A)' % ('; '.join(bad[:2]), others[0]), f.loc,
                    nontrivial=bool(bad))
    return res


def rule_w6(repo):
    """Every parser entry point finishes with type inference: what is read back is what type inference
    returns.  The fixpoint of its final expansion (C08.U8) is part of the round trip."""
    from .c08 import rule_u8
    r = rule_u8(repo)
    res = RuleResult('C07.W6', 'the term that is read back has no internal type variable left: type inference expands its table to a fixpoint', floor=1)
    for i in r.instances:
        res.add(i.key, i.ok, i.detail, i.loc)
    return res


def rule_w7(repo):
    """Printing, parsing and type inference read the declarations of the current context, the theory and the printer settings
    from process-wide variables that `with fresh_context(..)`, `fresh_theory()`, `global_setting(..)` set for the extent of a
    block: sa/persist.scoped_state_rule."""
    from ..persist import scoped_state_rule
    return scoped_state_rule(repo, 'C07.W7')

def rule_w8(repo):
    """The printer decides whether an operand needs brackets from the rating get_priority_pair gives it.  A numeral is
    rated as an atom - but only a non-negative one *is* an atom in print: -k is written with the prefix operator, and as
    the argument of a function `f (-2)` without brackets is `f -2`, which the grammar reads as the binary minus.  So
    wherever `is_number()` leads to the atom rating, the same conjunction carries a test that the number is not negative
    (dest_number() >= 0, or the like)."""
    from ..astutil import comparison_holding
    res = RuleResult('C07.W8', 'a numeral is rated as an atom only when it is not negative', floor=1)
    f = repo.func(PPRINT, 'get_ast_term.<locals>.get_priority_pair')

    def dnf(e, pol=True):
        if isinstance(e, ast.UnaryOp) and isinstance(e.op, ast.Not):
            return dnf(e.operand, not pol)
        if isinstance(e, ast.BoolOp):
            conj = isinstance(e.op, ast.And) == pol
            parts = [dnf(v, pol) for v in e.values]
            if not conj:
                return [c for p_ in parts for c in p_]
            out = [[]]
            for p_ in parts:
                out = [a + b for a in out for b in p_]
                need(len(out) <= 256, 'get_priority_pair: condition too large for a normal form')
            return out
        return [[(e, pol)]]

    def is_atom_return(stmts):
        return any(isinstance(r, ast.Return) and isinstance(r.value, ast.Tuple) and len(r.value.elts) == 2 and is_name(r.value.elts[1], 'ATOM')
                   for st in stmts for r in ast.walk(st))
    n_found = 0
    for node in ast.walk(f.node):
        if not (isinstance(node, ast.If) and is_atom_return(node.body[:1])):
            continue
        for conj in dnf(node.test):
            nums = [a for a, pol in conj if pol and isinstance(a, ast.Call) and call_attr(a) == 'is_number']
            if not nums:
                continue
            n_found += 1
            subj = src(nums[0].func.value)
            nonneg = False
            for a, pol in conj:
                for op, l, r in comparison_holding(a, pol):
                    if isinstance(l, ast.Call) and call_attr(l) == 'dest_number' and src(l.func.value) == subj and isinstance(r, ast.Constant) and \
                            ((op in (ast.GtE, ast.Gt) and r.value == 0) or (op is ast.Gt and r.value == -1)):
                        nonneg = True
                if not pol and isinstance(a, ast.Call) and call_attr(a) in ('is_uminus',) and src(a.func.value) == subj:
                    nonneg = True
            res.add('%s :: get_ast_term.get_priority_pair :: numeral-atom#%d' % (PPRINT, n_found), nonneg,
                    'rated an atom only with a test that the number is not negative' if nonneg else
                    'line %d rates every numeral `%s` as an atom, negative ones included; they are printed with the prefix minus, so f (-2) '
                    'is printed `f -2` and read back as f - 2' % (node.lineno, subj), '%s:%d' % (PPRINT, node.lineno))
    need(n_found, 'get_priority_pair: no atom rating behind is_number() found')
    return res

def rule_w9(repo):
    """Parsing ends with type inference, which takes the type a constant was *given* as fixed.  A constant built with an explicit type
    (`Const("collect", TFun(TFun(T, BoolType), setT(T)))`, or through a helper that is handed the name) has to be built at an instance of
    the type the library declares for it, whatever the type parameter T is.  (T => bool) => bool is an instance of the declared type of
    all / exists / exists1, but not of The and Some, which are ('a => bool) => 'a: `THE x::nat. ..` then no longer parses to the term that
    was printed.  Every such construction in syntax/parser.py and in the term-building modules data/*.py, logic/logic.py is unified
    with the declaration, the parameters of the building function taken as arbitrary but fixed types."""
    res = RuleResult('C07.W9', 'a constant built with an explicit type is built at an instance of its declared type', floor=10)
    sig = ht.Signature(repo.root)
    BASE = {'BoolType': 'bool', 'NatType': 'nat', 'IntType': 'int', 'RealType': 'real', 'boolT': 'bool', 'natT': 'nat', 'intT': 'int', 'realT': 'real'}

    def conv(e, params):
        if isinstance(e, ast.Name):
            if e.id in BASE:
                return ('c', BASE[e.id], ())
            if e.id in params:
                return ('c', '$' + e.id, ())          # an arbitrary but fixed type
            return None
        if isinstance(e, ast.Attribute) and e.attr in BASE:
            return ('c', BASE[e.attr], ())
        if isinstance(e, ast.Call):
            nm = (call_name(e) or '').split('.')[-1]
            args = [conv(a, params) for a in e.args]
            if any(a is None for a in args) or e.keywords:
                return None
            if nm == 'TFun' and len(args) >= 2:
                t = args[-1]
                for a in reversed(args[:-1]):
                    t = ('c', 'fun', (a, t))
                return t
            if nm == 'setT' and len(args) == 1:
                return ('c', 'set', (args[0],))
            if nm == 'TConst' and e.args and isinstance(e.args[0], ast.Constant):
                return ('c', e.args[0].value, tuple(args[1:])) if all(a is not None for a in args[1:]) and conv(e.args[0], params) is None else None
        return None
    n = 0
    for m in repo.source_modules():
        if not (m.rel == PARSER or m.rel.startswith('data/') or m.rel == 'logic/logic.py') or '/tests/' in m.rel:
            continue
        for f in m.all_funcs:
            params = set(f.params())
            for c in ast.walk(f.node):
                if not (isinstance(c, ast.Call) and call_name(c) == 'Const' and len(c.args) == 2 and not (isinstance(c.args[1], ast.Constant) and c.args[1].value is None)):
                    continue
                names = []
                if isinstance(c.args[0], ast.Constant) and isinstance(c.args[0].value, str):
                    names = [(c.args[0].value, c)]
                elif isinstance(c.args[0], ast.Name) and c.args[0].id in params and f.parent is None:
                    # the name is a parameter of the building function: the literal names it is called with (in this module)
                    i = f.params().index(c.args[0].id)
                    for g in m.all_funcs:
                        for cc in ast.walk(g.node):
                            if isinstance(cc, ast.Call) and (call_name(cc) or '').split('.')[-1] == f.name and len(cc.args) > i and \
                                    isinstance(cc.args[i], ast.Constant) and isinstance(cc.args[i].value, str):
                                names.append((cc.args[i].value, cc))
                built = conv(c.args[1], params - {c.args[0].id if isinstance(c.args[0], ast.Name) else ''})
                if built is None:
                    continue
                for nm, site in names:
                    decl = sig.general.get(nm)
                    if decl is None:
                        continue
                    n += 1
                    ok = ht.unify(ht.rename(decl, 'd') if hasattr(ht, 'rename') else decl, built, {})
                    res.add('%s :: %s :: Const(%s)@%d' % (m.rel, f.qualname, nm, site.lineno - f.node.lineno if site is c else site.lineno), ok,
                            'an instance of the declared type' if ok else
                            'line %d builds `%s` at the type `%s`, which is not an instance of its declared type %s for an arbitrary %s: the term that is parsed is not '
                            'the term that was printed (THE x::nat. P x)' % (site.lineno, nm, src(c.args[1], 60), ht.show(decl) if hasattr(ht, 'show') else decl,
                                                                          ', '.join(sorted(params & {x.id for x in ast.walk(c.args[1]) if isinstance(x, ast.Name)})) or 'type'),
                            '%s:%d' % (m.rel, site.lineno))
    res.info['constructions'] = n
    return res


def rules(repo):
    return [rule_w1(repo), rule_w2(repo), rule_w3(repo), rule_w4(repo), rule_w5(repo), rule_w6(repo), rule_w7(repo), rule_w8(repo), rule_w9(repo)]
