"""C18.R9 - an evaluator takes a premise or a goal literal apart by position only after testing its head
connective.

Canonical access paths.  Every expression that denotes (a part of) an argument or premise gets a set of
canonical paths: the parameter name followed by `.arg1`, `.arg`, `.args[k]`, `.prop`, `[k]`, `[*]`,
`[a:b]`, `.strip_conj()[*]` ...  `.lhs` / `.rhs` are `.arg1` / `.arg`; the targets of `a, b = X.args` are
`X.arg1`, `X.arg`; those of a longer unpacking are `X.args[k]`; a loop or comprehension variable over S is
`S[*]`.  Local names are expanded through all their definitions.  Results of other calls are opaque: a term
computed by a helper is not a premise part, and the helper's own parameters are analysed where it is an
evaluator itself.

Shape facts.  A test `E.is_*()` / `logic.is_*(E)` taken on its true side, or `E == t` on its true side,
establishes the shape of every canonical path of E.  `all(<tests on v> for v in S)` establishes them for
`S[*]`.  A site `B.arg` is fine when every path to it passes an edge that establishes a canonical path of B,
or when it is guarded inside its own expression (`B.is_not() and B.arg ...`, `B.arg if B.is_not() else ..`).
"""
import ast

from ..cfg import cfg_of
from ..astutil import src, compare_parts

DESTRUCTORS = {'arg', 'arg1', 'args', 'fun', 'body'}
NORM_ATTR = {'lhs': 'arg1', 'rhs': 'arg'}
PATH_CALLS = {'strip_conj', 'strip_disj', 'strip_comb', 'strip_implies', 'strip_forall', 'strip_exists', 'strip_quant'}
COPY_CALLS = {'list', 'tuple', 'reversed', 'sorted'}


class Paths:
    def __init__(self, funcnode, roots):
        self.func = funcnode
        self.roots = set(roots)
        self.defs = {}        # name -> list of ('value', expr) | ('elem', expr) | ('unpack', expr, i, n)
        for n in ast.walk(funcnode):
            if isinstance(n, ast.Assign):
                for t in n.targets:
                    self._bind(t, n.value)
            elif isinstance(n, (ast.For, ast.comprehension)):
                self._bind_elem(n.target, n.iter)
            elif isinstance(n, ast.NamedExpr):
                self._bind(n.target, n.value)
        self._memo = {}

    def _add(self, name, d):
        self.defs.setdefault(name, []).append(d)

    def _bind(self, target, value):
        if isinstance(target, ast.Name):
            self._add(target.id, ('value', value))
        elif isinstance(target, (ast.Tuple, ast.List)):
            elts = target.elts
            if isinstance(value, (ast.Tuple, ast.List)) and len(value.elts) == len(elts):
                for t, v in zip(elts, value.elts):
                    self._bind(t, v)
            else:
                for i, t in enumerate(elts):
                    if isinstance(t, ast.Name):
                        self._add(t.id, ('unpack', value, i, len(elts)))
                    elif isinstance(t, ast.Starred) and isinstance(t.value, ast.Name):
                        self._add(t.value.id, ('opaque',))
                    elif isinstance(t, (ast.Tuple, ast.List)):
                        for u in ast.walk(t):
                            if isinstance(u, ast.Name):
                                self._add(u.id, ('opaque',))

    def _bind_elem(self, target, it):
        if isinstance(target, ast.Name):
            self._add(target.id, ('elem', it))
        else:
            # `for a, b in zip(X, Y)` : a is an element of X, b of Y
            if isinstance(target, (ast.Tuple, ast.List)) and isinstance(it, ast.Call) and isinstance(it.func, ast.Name) and \
                    it.func.id == 'zip' and len(it.args) == len(target.elts):
                for t, a in zip(target.elts, it.args):
                    self._bind_elem(t, a)
                return
            if isinstance(target, (ast.Tuple, ast.List)) and isinstance(it, ast.Call) and isinstance(it.func, ast.Name) and \
                    it.func.id == 'enumerate' and len(target.elts) == 2 and it.args:
                self._bind_elem(target.elts[1], it.args[0])
                if isinstance(target.elts[0], ast.Name):
                    self._add(target.elts[0].id, ('opaque',))
                return
            for u in ast.walk(target):
                if isinstance(u, ast.Name):
                    self._add(u.id, ('opaque',))

    def canon(self, e, _active=None):
        """set of canonical paths; empty when the expression is not a pure access path from a root"""
        _active = _active if _active is not None else set()
        if isinstance(e, ast.Name):
            if e.id in self.roots and e.id not in self.defs:
                return {e.id}
            if e.id in _active:
                return set()
            _active = _active | {e.id}
            out = set()
            if e.id in self.roots:
                out.add(e.id)
            for d in self.defs.get(e.id, []):
                if d[0] == 'value':
                    out |= self.canon(d[1], _active)
                elif d[0] == 'elem':
                    out |= {p + '[*]' for p in self.canon(d[1], _active)}
                elif d[0] == 'unpack':
                    _k, rhs, i, n = d
                    base = self.canon(rhs, _active)
                    for p in base:
                        if p.endswith('.args') and n == 2:
                            out.add(p[:-5] + ('.arg1' if i == 0 else '.arg'))
                        elif p.endswith('.args'):
                            out.add('%s[%d]' % (p, i))
                        else:
                            out.add('%s[%d]' % (p, i))
            return out
        if isinstance(e, ast.Attribute):
            a = NORM_ATTR.get(e.attr, e.attr)
            return {p + '.' + a for p in self.canon(e.value, _active)}
        if isinstance(e, ast.Subscript):
            base = self.canon(e.value, _active)
            sl = e.slice
            if isinstance(sl, ast.Constant) and isinstance(sl.value, int):
                tok = '[%d]' % sl.value
            elif isinstance(sl, ast.UnaryOp) and isinstance(sl.op, ast.USub) and isinstance(sl.operand, ast.Constant):
                tok = '[-%s]' % sl.operand.value
            elif isinstance(sl, ast.Slice):
                tok = '[%s]' % src(sl, 30)
            else:
                tok = '[*]'
            out = set()
            for p in base:
                # `.args[0]` / `.args[1]` of a binary term are not identified with arg1 / arg (arity unknown)
                out.add(p + tok)
            return out
        if isinstance(e, ast.Call) and isinstance(e.func, ast.Attribute) and e.func.attr in PATH_CALLS and not e.args:
            out = set()
            for p in self.canon(e.func.value, _active):
                # Or(*X).strip_disj() gives back the elements of X (and the parts of those that are disjunctions)
                if (p.endswith('.Or()') and e.func.attr == 'strip_disj') or (p.endswith('.And()') and e.func.attr == 'strip_conj'):
                    out.add(p[:p.rindex('.')])
                else:
                    out.add(p + '.' + e.func.attr + '()')
            return out
        if isinstance(e, ast.Call) and isinstance(e.func, ast.Name) and e.func.id in ('Or', 'And') and len(e.args) == 1 and \
                isinstance(e.args[0], ast.Starred):
            return {p + '.' + e.func.id + '()' for p in self.canon(e.args[0].value, _active)}
        if isinstance(e, ast.Call) and isinstance(e.func, ast.Name) and e.func.id in COPY_CALLS and len(e.args) == 1:
            return self.canon(e.args[0], _active)
        if isinstance(e, ast.Starred):
            return self.canon(e.value, _active)
        return set()


def _tests_in(expr):
    """atomic shape tests (call nodes / compares) of a boolean expression that hold when it is true"""
    if isinstance(expr, ast.BoolOp) and isinstance(expr.op, ast.And):
        out = []
        for v in expr.values:
            out += _tests_in(v)
        return out
    return [expr]


def shape_subjects(e):
    """expressions whose shape the atomic test e establishes when it is true"""
    if isinstance(e, ast.Call) and isinstance(e.func, ast.Attribute) and e.func.attr.startswith('is_'):
        subs = [e.func.value]
        if e.args and not isinstance(e.args[0], ast.Constant):
            subs.append(e.args[0])          # logic.is_if(t)
        return subs
    cp = compare_parts(e)
    if cp and cp[0] is ast.Eq:
        subs = [cp[1], cp[2]]
        # `X.head == c` fixes the head of X
        subs += [x.value for x in (cp[1], cp[2]) if isinstance(x, ast.Attribute) and x.attr == 'head']
        return subs
    if cp and cp[0] is ast.In:
        return [cp[1]]
    return []


def negated_subjects(e):
    """... when it is false (`X != t`, `X not in S`)"""
    cp = compare_parts(e)
    if cp and cp[0] is ast.NotEq:
        return [cp[1], cp[2]] + [x.value for x in (cp[1], cp[2]) if isinstance(x, ast.Attribute) and x.attr == 'head']
    if cp and cp[0] is ast.NotIn:
        return [cp[1]]
    return []


class ShapeAnalysis:
    def __init__(self, funcnode, roots):
        self.func = funcnode
        self.paths = Paths(funcnode, roots)
        self.cfg = cfg_of(funcnode)
        self.parent = {}
        for n in ast.walk(funcnode):
            for ch in ast.iter_child_nodes(n):
                self.parent[id(ch)] = n

    def established_by(self, test_expr, pol):
        """canonical paths whose shape holds after the atomic CFG test took the given side"""
        out = set()
        subs = shape_subjects(test_expr) if pol else negated_subjects(test_expr)
        for s in subs:
            out |= self.paths.canon(s)
        # all(<tests on v> for v in S)
        if pol and isinstance(test_expr, ast.Call) and isinstance(test_expr.func, ast.Name) and test_expr.func.id == 'all' and test_expr.args and \
                isinstance(test_expr.args[0], (ast.GeneratorExp, ast.ListComp)):
            gen = test_expr.args[0]
            for t in _tests_in(gen.elt):
                for s in shape_subjects(t):
                    out |= self.paths.canon(s)
        return out

    @staticmethod
    def _generalise(canon):
        """a fact about S[*] (every element) covers S[k]"""
        import re
        out = set(canon)
        for p in canon:
            out.add(re.sub(r'\[-?\d+\]', '[*]', p))
        return out

    def edges_for(self, canon):
        canon = self._generalise(canon)
        edges = set()
        for n in self.cfg.test_nodes():
            for pol, label in ((True, 'true'), (False, 'false')):
                if self.established_by(n.ast, pol) & canon:
                    edges.add((n.id, label))
        return edges

    def guarded_in_expression(self, site, canon):
        """`B.is_not() and B.arg == x`, `B.arg if B.is_not() else ..`, `[.. B.arg .. for B in S if B.is_not()]`"""
        node = site
        while id(node) in self.parent:
            par = self.parent[id(node)]
            if isinstance(par, ast.BoolOp) and isinstance(par.op, ast.And):
                idx = next(i for i, v in enumerate(par.values) if v is node)
                for v in par.values[:idx]:
                    for t in _tests_in(v):
                        if any(self.paths.canon(s) & canon for s in shape_subjects(t)):
                            return True
            if isinstance(par, ast.BoolOp) and isinstance(par.op, ast.Or):
                idx = next(i for i, v in enumerate(par.values) if v is node)
                for v in par.values[:idx]:
                    # `not B.is_not() or B.arg ...`
                    if isinstance(v, ast.UnaryOp) and isinstance(v.op, ast.Not):
                        for t in _tests_in(v.operand):
                            if any(self.paths.canon(s) & canon for s in shape_subjects(t)):
                                return True
            if isinstance(par, ast.IfExp):
                if node is par.body:
                    for t in _tests_in(par.test):
                        if any(self.paths.canon(s) & canon for s in shape_subjects(t)):
                            return True
                if node is par.orelse and isinstance(par.test, ast.UnaryOp) and isinstance(par.test.op, ast.Not):
                    for t in _tests_in(par.test.operand):
                        if any(self.paths.canon(s) & canon for s in shape_subjects(t)):
                            return True
            if isinstance(par, (ast.ListComp, ast.GeneratorExp, ast.SetComp, ast.DictComp)):
                for g in par.generators:
                    for cond in g.ifs:
                        for t in _tests_in(cond):
                            if any(self.paths.canon(s) & canon for s in shape_subjects(t)):
                                return True
            if isinstance(par, (ast.stmt,)):
                break
            node = par
        return False

    def sites(self):
        """[(attribute node, base expr, canonical paths of the base)] for every positional read of a premise part"""
        out = []
        seen = set()
        for a in ast.walk(self.func):
            if not (isinstance(a, ast.Attribute) and a.attr in DESTRUCTORS and isinstance(a.ctx, ast.Load)):
                continue
            canon = self.paths.canon(a.value)
            if not canon:
                continue
            key = (src(a.value, 200), a.lineno)
            if key in seen:
                continue
            seen.add(key)
            out.append((a, a.value, canon))
        return out

    def check(self, a, canon):
        if self.guarded_in_expression(a, canon):
            return True
        node = self.cfg.node_for(a)
        if node is None:
            return None
        if self.cfg.exit.id not in self.cfg.reach_from([node]):
            return None       # on a path that can only end in an exception (diagnostics before a raise)
        edges = self.edges_for(canon)
        return bool(edges) and self.cfg.path_avoiding_consistent(node, skip_edges=edges, atom_key=self.atom_key) is None

    def atom_key(self, test_node):
        """two kind tests `X.is_k()` of the same unchanged premise part are one condition"""
        e = test_node.ast
        if not (isinstance(e, ast.Call) and isinstance(e.func, ast.Attribute) and e.func.attr.startswith('is_') and not e.args):
            return None
        subj = e.func.value
        for nm in ast.walk(subj):
            if isinstance(nm, ast.Name) and len(self.paths.defs.get(nm.id, [])) > (0 if nm.id in self.paths.roots else 1):
                return None       # a name with several definitions may denote different terms at different tests
        c = self.paths.canon(subj)
        if len(c) != 1:
            return None
        return (next(iter(c)), e.func.attr)
