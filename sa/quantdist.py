"""Pushing a connective under a common quantifier, decided over a two-element domain.

`gen_and(t1, t2)` / `gen_or(t1, t2)` (smt/veriT, used by the evaluation of bfun_elim) return a term that must be
equivalent to t1 & t2 / t1 | t2; when both are quantified over the same variable they move the connective under
the quantifier.  That is valid for (!, &) and (?, |) and for no other pairing.

The function is evaluated abstractly for every case of its two arguments - each is a universal quantification, an
existential one, or neither; when both are quantified their bound variables are the same or not - following the
`if` tests, which are all about these shapes.  The result and the specification `t1 <connective> t2` are then
compared as boolean functions of the bodies, read as unknown predicates over the domain {0, 1} (a recursive call
is, by induction, the connective of its arguments).  A helper with the connective as a parameter is entered with the
constant its caller passes.  Nothing is executed; an unsupported construct makes the case "not analysed".
"""
import ast
import itertools

from .astutil import src

D = (0, 1)


class Unsupported(Exception):
    pass


class Abstract:
    def __init__(self, module_funcs, spec_of):
        self.funcs = module_funcs        # name -> FuncInfo
        self.spec_of = spec_of           # function name -> 'and' | 'or'

    # values: ('term', i) the i-th argument as a whole; ('q', kind, bv, body); ('pred', i) body of argument i (predicate of its bound variable);
    #         ('bv', i) bound variable of argument i; ('and'|'or', a, b); ('conn', kind) a connective constructor
    def run(self, fname, args, case, conn_params=None, depth=0):
        """abstract result of fname(*args) in the given case"""
        if depth > 3:
            raise Unsupported('call depth')
        f = self.funcs[fname]
        ps = f.params()
        env = dict(zip(ps, args))
        return self.block(f.node.body, env, case, fname, depth)

    def block(self, stmts, env, case, fname, depth):
        for s in stmts:
            if isinstance(s, ast.Expr) and isinstance(s.value, ast.Constant):
                continue
            if isinstance(s, ast.If):
                c = self.cond(s.test, env, case)
                r = self.block(s.body if c else s.orelse, env, case, fname, depth)
                if r is not None:
                    return r
                continue
            if isinstance(s, ast.Assign) and len(s.targets) == 1:
                t, v = s.targets[0], s.value
                if isinstance(t, (ast.Tuple, ast.List)) and len(t.elts) == 2 and isinstance(v, ast.Call) and isinstance(v.func, ast.Attribute) and \
                        v.func.attr == 'dest_abs' and isinstance(v.func.value, ast.Attribute) and v.func.value.attr == 'arg':
                    base = self.ev(v.func.value.value, env, case, fname, depth)
                    if base[0] != 'term' or case['shape'][base[1]] not in ('forall', 'exists'):
                        raise Unsupported('dest_abs of a term that is not a quantification here')
                    i = base[1]
                    env[t.elts[0].id], env[t.elts[1].id] = ('bv', self.bvname(i, case)), ('pred', i)
                    continue
                if isinstance(t, ast.Name):
                    env[t.id] = self.ev(v, env, case, fname, depth)
                    continue
                raise Unsupported('assignment `%s`' % src(s, 40))
            if isinstance(s, ast.Return) and s.value is not None:
                return self.ev(s.value, env, case, fname, depth)
            raise Unsupported('statement `%s`' % src(s, 40))
        return None

    @staticmethod
    def bvname(i, case):
        return 0 if case['same_var'] else i

    def cond(self, e, env, case):
        if isinstance(e, ast.BoolOp):
            vals = [self.cond(v, env, case) for v in e.values]
            return all(vals) if isinstance(e.op, ast.And) else any(vals)
        if isinstance(e, ast.UnaryOp) and isinstance(e.op, ast.Not):
            return not self.cond(e.operand, env, case)
        if isinstance(e, ast.Call) and isinstance(e.func, ast.Attribute) and e.func.attr in ('is_forall', 'is_exists') and not e.args:
            v = self.ev(e.func.value, env, case, None, 0)
            if v[0] == 'term':
                return case['shape'][v[1]] == e.func.attr[3:]
            if v[0] == 'q':
                return v[1] == e.func.attr[3:]
            return False
        if isinstance(e, ast.Compare) and len(e.ops) == 1 and isinstance(e.ops[0], (ast.Eq, ast.NotEq)):
            l, r = e.left, e.comparators[0]
            eq = isinstance(e.ops[0], ast.Eq)
            if isinstance(l, ast.Attribute) and l.attr == 'head' and isinstance(r, ast.Attribute) and r.attr == 'head':
                a, b = self.ev(l.value, env, case, None, 0), self.ev(r.value, env, case, None, 0)
                if a[0] == 'term' and b[0] == 'term':
                    sa, sb = case['shape'][a[1]], case['shape'][b[1]]
                    same = (sa == sb) if 'other' not in (sa, sb) else (sa == sb and case['same_head'])
                    return same == eq
                raise Unsupported('head comparison')
            a, b = self.ev(l, env, case, None, 0), self.ev(r, env, case, None, 0)
            if a[0] == 'bv' and b[0] == 'bv':
                return (a[1] == b[1]) == eq
            raise Unsupported('comparison `%s`' % src(e, 40))
        raise Unsupported('test `%s`' % src(e, 40))

    def ev(self, e, env, case, fname, depth):
        if isinstance(e, ast.Name):
            if e.id in env:
                return env[e.id]
            if e.id in ('And', 'Or'):
                return ('conn', e.id.lower())
            raise Unsupported('name `%s`' % e.id)
        if isinstance(e, ast.Call):
            fn = e.func
            if isinstance(fn, ast.Name):
                if fn.id in ('Forall', 'Exists') and len(e.args) == 2:
                    v, b = self.ev(e.args[0], env, case, fname, depth), self.ev(e.args[1], env, case, fname, depth)
                    if v[0] != 'bv':
                        raise Unsupported('quantifier over a non-variable')
                    return ('q', fn.id.lower(), v[1], b)
                if fn.id in ('And', 'Or') and len(e.args) == 2:
                    return (fn.id.lower(), self.ev(e.args[0], env, case, fname, depth), self.ev(e.args[1], env, case, fname, depth))
                if fn.id in env and env[fn.id][0] == 'conn' and len(e.args) == 2:
                    return (env[fn.id][1], self.ev(e.args[0], env, case, fname, depth), self.ev(e.args[1], env, case, fname, depth))
                if fn.id in self.funcs:
                    args = [self.ev(a, env, case, fname, depth) for a in e.args]
                    terms = [a for a in args if a[0] != 'conn']
                    # a recursive call on the two bodies: by induction the connective of its arguments
                    spec = self.spec_for(fn.id, args)
                    if all(a[0] in ('pred', 'and', 'or', 'q') for a in terms) and spec is not None and len(terms) == 2:
                        return (spec, terms[0], terms[1])
                    if all(a[0] in ('term', 'conn') for a in args):
                        return self.run(fn.id, args, case, depth=depth + 1)
                    raise Unsupported('call `%s`' % src(e, 40))
            if isinstance(fn, ast.Attribute) and fn.attr == 'head' and len(e.args) == 1 and isinstance(e.args[0], ast.Call) and \
                    isinstance(e.args[0].func, ast.Name) and e.args[0].func.id == 'Lambda' and len(e.args[0].args) == 2:
                base = self.ev(fn.value, env, case, fname, depth)
                if base[0] == 'term' and case['shape'][base[1]] in ('forall', 'exists'):
                    v, b = self.ev(e.args[0].args[0], env, case, fname, depth), self.ev(e.args[0].args[1], env, case, fname, depth)
                    if v[0] == 'bv':
                        return ('q', case['shape'][base[1]], v[1], b)
            raise Unsupported('call `%s`' % src(e, 40))
        raise Unsupported('expression `%s`' % src(e, 40))

    def spec_for(self, fname, args):
        if fname in self.spec_of:
            return self.spec_of[fname]
        conns = [a for a in args if a[0] == 'conn']
        return conns[0][1] if conns else None


def term_value(i, case):
    s = case['shape'][i]
    if s == 'other':
        return ('term', i)
    return ('q', s, Abstract.bvname(i, case), ('pred', i))


def holds(v, env, sigma):
    k = v[0]
    if k == 'term':
        return sigma[('term', v[1])]
    if k == 'pred':
        i = v[1]
        bv = sigma['bvname'][i]
        x = env.get(bv, sigma[('free', bv)])
        return sigma[('pred', i, x)]
    if k == 'q':
        vals = [holds(v[3], dict(env, **{v[2]: d}) if False else {**env, v[2]: d}, sigma) for d in D]
        return all(vals) if v[1] == 'forall' else any(vals)
    if k == 'and':
        return holds(v[1], env, sigma) and holds(v[2], env, sigma)
    if k == 'or':
        return holds(v[1], env, sigma) or holds(v[2], env, sigma)
    raise ValueError(k)


def check_function(module_funcs, fname, kind, spec_of):
    """[(case text, ok | None, detail)] for fname(t1, t2) against t1 <kind> t2"""
    ab = Abstract(module_funcs, spec_of)
    out = []
    for s0, s1 in itertools.product(('forall', 'exists', 'other'), repeat=2):
        both_q = s0 != 'other' and s1 != 'other'
        for same_var in ((True, False) if both_q else (False,)):
            for same_head in ((True, False) if (s0 == 'other' and s1 == 'other') else (True,)):
                case = {'shape': {0: s0, 1: s1}, 'same_var': same_var, 'same_head': same_head}
                text = 't1: %s, t2: %s%s' % (s0, s1, (', same variable' if same_var else ', different variables') if both_q else '')
                try:
                    res = ab.run(fname, [('term', 0), ('term', 1)], case)
                    if res is None:
                        raise Unsupported('no result')
                except Unsupported as ex:
                    out.append((text, None, str(ex)))
                    continue
                spec = (kind, term_value(0, case), term_value(1, case))
                # the result uses the arguments as wholes or through their bodies: expand wholes for the comparison
                def expand(v):
                    if v[0] == 'term':
                        return term_value(v[1], case)
                    if v[0] in ('and', 'or'):
                        return (v[0], expand(v[1]), expand(v[2]))
                    if v[0] == 'q':
                        return ('q', v[1], v[2], expand(v[3]))
                    return v
                res = expand(res)
                bvname = {0: Abstract.bvname(0, case), 1: Abstract.bvname(1, case)}
                keys = [('term', 0), ('term', 1)] + [('pred', i, d) for i in (0, 1) for d in D] + [('free', b) for b in sorted(set(bvname.values()))]
                bad = None
                for bits in itertools.product((False, True), repeat=6):
                    for frees in itertools.product(D, repeat=len(keys) - 6):
                        sigma = dict(zip(keys[:6], bits))
                        sigma.update(dict(zip(keys[6:], frees)))
                        sigma['bvname'] = bvname
                        if holds(res, {}, sigma) != holds(spec, {}, sigma):
                            bad = sigma
                            break
                    if bad:
                        break
                if bad is None:
                    out.append((text, True, 'equivalent to t1 %s t2' % kind))
                else:
                    p = {i: [bad[('pred', i, d)] for d in D] for i in (0, 1)}
                    out.append((text, False, 'the result is not equivalent to t1 %s t2: with body1 = %s and body2 = %s over {0, 1} the two differ' % (
                        kind, p[0], p[1])))
    return out
