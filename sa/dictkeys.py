"""Keys of dict-shaped records written and read by functions (writer/reader agreement rules)."""
import ast

from .cfg import cfg_of
from .astutil import is_name, call_name, call_attr, compare_parts, walk_no_nested, returns_of


def _dict_keys(d):
    return [k.value for k in d.keys if isinstance(k, ast.Constant) and isinstance(k.value, str)]


def _nested_of(value, prefix, flow_lists, out):
    """record keys of dict literals nested inside list values under prefix[*]"""
    if isinstance(value, (ast.ListComp, ast.GeneratorExp)) and isinstance(value.elt, ast.Dict):
        for k in _dict_keys(value.elt):
            out.add('%s[*].%s' % (prefix, k))
    elif isinstance(value, ast.List):
        for e in value.elts:
            if isinstance(e, ast.Dict):
                for k in _dict_keys(e):
                    out.add('%s[*].%s' % (prefix, k))
    elif isinstance(value, ast.Name) and value.id in flow_lists:
        for k in flow_lists[value.id]:
            out.add('%s[*].%s' % (prefix, k))


def written_keys(func, resolve_super=None):
    """(always, sometimes): keys of the dict the function returns.  `resolve_super(method_name)` gives
    the FuncInfo of the parent implementation for `X = super().method()`."""
    node = func.node
    cfg = cfg_of(node)
    always, sometimes = set(), set()
    # lists of dicts built with .append({...})
    flow_lists = {}
    for n in walk_no_nested(node):
        if isinstance(n, ast.Call) and call_attr(n) == 'append' and isinstance(n.func.value, ast.Name) and n.args and \
                isinstance(n.args[0], ast.Dict):
            flow_lists.setdefault(n.func.value.id, set()).update(_dict_keys(n.args[0]))
    rets = [r for r in returns_of(node) if r.value is not None]
    result_names = set()
    for r in rets:
        v = r.value
        if isinstance(v, ast.Dict):
            for k, val in zip(v.keys, v.values):
                if isinstance(k, ast.Constant):
                    always.add(k.value)
                    _nested_of(val, k.value, flow_lists, always)
        elif isinstance(v, ast.Name):
            result_names.add(v.id)
    for name in result_names:
        for n in walk_no_nested(node):
            if isinstance(n, ast.Assign) and any(is_name(t, name) for t in n.targets):
                v = n.value
                if isinstance(v, ast.Dict):
                    for k, val in zip(v.keys, v.values):
                        if isinstance(k, ast.Constant):
                            always.add(k.value)
                            _nested_of(val, k.value, flow_lists, always)
                elif isinstance(v, ast.Call) and isinstance(v.func, ast.Attribute) and isinstance(v.func.value, ast.Call) and \
                        call_name(v.func.value) == 'super' and resolve_super is not None:
                    parent = resolve_super(v.func.attr)
                    if parent is not None:
                        a, s = written_keys(parent, None if parent.cls is None else _super_resolver(parent))
                        always |= a
                        sometimes |= s
            if isinstance(n, ast.Assign):
                for t in n.targets:
                    if isinstance(t, ast.Subscript) and is_name(t.value, name) and isinstance(t.slice, ast.Constant):
                        k = t.slice.value
                        cn = cfg.node_for(n)
                        uncond = cn is not None and all(cfg.dominates(cn, cfg.node_for(r)) for r in rets if cfg.node_for(r) is not None)
                        (always if uncond else sometimes).add(k)
                        tmp = set()
                        _nested_of(n.value, k, flow_lists, tmp)
                        (always if uncond else sometimes).update(tmp)
    sometimes -= always
    return always, sometimes


def _super_resolver(func):
    def resolve(method):
        for b in func.cls.bases:
            m = b.find_method(method)
            if m is not None:
                return m
        return None
    return resolve


def read_keys(func, param, resolve_super=None):
    """(required, optional): keys read from the record bound to `param`."""
    node = func.node
    cfg = cfg_of(node)
    required, optional = set(), set()

    def guarded(n, key):
        cn = cfg.node_for(n)
        if cn is None:
            return False

        def pred(e, pol):
            cp = compare_parts(e)
            return bool(cp) and cp[0] is ast.In and pol and isinstance(cp[1], ast.Constant) and cp[1].value == key and is_name(cp[2], param)
        edges = cfg.establishing_edges(pred)
        return bool(edges) and cfg.path_avoiding(cn, skip_edges=edges) is None

    elem_of = {}     # loop variable -> key it iterates over
    for n in walk_no_nested(node):
        if isinstance(n, (ast.For, ast.comprehension)) and isinstance(n.target, ast.Name):
            it = n.iter
            if isinstance(it, ast.Subscript) and is_name(it.value, param) and isinstance(it.slice, ast.Constant):
                elem_of[n.target.id] = it.slice.value
    for n in walk_no_nested(node):
        if isinstance(n, ast.Subscript) and isinstance(n.ctx, ast.Load) and isinstance(n.slice, ast.Constant) and isinstance(n.slice.value, str):
            if is_name(n.value, param):
                (optional if guarded(n, n.slice.value) else required).add(n.slice.value)
            elif isinstance(n.value, ast.Name) and n.value.id in elem_of:
                required.add('%s[*].%s' % (elem_of[n.value.id], n.slice.value))
        cp = compare_parts(n) if isinstance(n, ast.Compare) else None
        if cp and cp[0] in (ast.In, ast.NotIn) and isinstance(cp[1], ast.Constant) and is_name(cp[2], param):
            optional.add(cp[1].value)
        if isinstance(n, ast.Call) and isinstance(n.func, ast.Attribute) and isinstance(n.func.value, ast.Call) and \
                call_name(n.func.value) == 'super' and resolve_super is not None and any(is_name(a, param) for a in n.args):
            parent = resolve_super(n.func.attr)
            if parent is not None:
                pp = parent.params()
                idx = [i for i, a in enumerate(n.args) if is_name(a, param)][0]
                r, o = read_keys(parent, pp[idx + 1], _super_resolver(parent))
                required |= r
                optional |= o
    optional -= required
    return required, optional


def stored_keys(func, param):
    """keys the function itself assigns into the record: param['k'] = ..."""
    res = set()
    for n in walk_no_nested(func.node):
        if isinstance(n, ast.Assign):
            for t in n.targets:
                if isinstance(t, ast.Subscript) and is_name(t.value, param) and isinstance(t.slice, ast.Constant):
                    res.add(t.slice.value)
    return res
