"""A6: literal tables embedded in the sources, folded without importing the module."""
import ast

from .core import AnalysisError, need


def module_constants(module):
    """Names bound at module level to literals or to `a, b = range(n)` enumerations."""
    env = {}
    for n in module.tree.body:
        if isinstance(n, ast.Assign) and len(n.targets) == 1:
            t, v = n.targets[0], n.value
            if isinstance(t, ast.Tuple) and isinstance(v, ast.Call) and isinstance(v.func, ast.Name) and v.func.id == 'range' \
                    and len(v.args) == 1 and isinstance(v.args[0], ast.Constant) and len(t.elts) == v.args[0].value:
                for i, e in enumerate(t.elts):
                    if isinstance(e, ast.Name):
                        env[e.id] = i
            elif isinstance(t, ast.Name):
                try:
                    env[t.id] = fold(v, env)
                except ValueError:
                    pass
    return env


def fold(node, env):
    if isinstance(node, ast.Constant):
        return node.value
    if isinstance(node, ast.Name):
        if node.id in env:
            return env[node.id]
        raise ValueError(node.id)
    if isinstance(node, ast.Attribute):
        # operator.LEFT style references resolve by last component
        if node.attr in env:
            return env[node.attr]
        raise ValueError(node.attr)
    if isinstance(node, ast.UnaryOp) and isinstance(node.op, ast.USub):
        return -fold(node.operand, env)
    if isinstance(node, (ast.List, ast.Tuple)):
        return [fold(e, env) for e in node.elts]
    if isinstance(node, ast.Dict):
        return {fold(k, env): fold(v, env) for k, v in zip(node.keys, node.values)}
    raise ValueError(type(node).__name__)


def constructor_rows(module, list_name, class_name, env=None):
    """Rows of `list_name = [Class(...), ...]` as dicts parameter -> value, with defaults taken
    from Class.__init__ (and the `if x is None: self.x = other` fallbacks left to the caller)."""
    env = dict(module_constants(module)) if env is None else env
    cls = need(module.classes.get(class_name), '%s: class %s not found' % (module.rel, class_name))
    init = need(cls.methods.get('__init__'), '%s.%s has no __init__' % (module.rel, class_name))
    a = init.node.args
    pos = [x.arg for x in a.args][1:]
    defaults = {}
    for name, d in zip(pos[len(pos) - len(a.defaults):], a.defaults):
        defaults[name] = d
    for k, d in zip(a.kwonlyargs, a.kw_defaults):
        if d is not None:
            defaults[k.arg] = d
    table = None
    for n in module.tree.body:
        if isinstance(n, ast.Assign) and any(isinstance(t, ast.Name) and t.id == list_name for t in n.targets):
            table = n.value
    need(isinstance(table, ast.List), '%s: list literal %s not found' % (module.rel, list_name))
    rows = []
    for c in table.elts:
        need(isinstance(c, ast.Call) and isinstance(c.func, ast.Name) and c.func.id == class_name,
             '%s: %s contains something that is not a %s(...) row' % (module.rel, list_name, class_name))
        row = {}
        for name, d in defaults.items():
            row[name] = fold(d, env)
        for name, v in zip(pos, c.args):
            row[name] = fold(v, env)
        for k in c.keywords:
            row[k.arg] = fold(k.value, env)
        row['_line'] = c.lineno
        rows.append(row)
    return rows, env
