"""Small AST helpers used by the rules."""
import ast

from .repo import dotted
from .flow import access_path


def src(node, limit=120):
    try:
        s = ast.unparse(node)
    except Exception:
        s = '<%s>' % type(node).__name__
    s = ' '.join(s.split())
    return s if len(s) <= limit else s[:limit - 3] + '...'


def walk_no_nested(node, include_root=True):
    """ast.walk that does not descend into nested function/class definitions or lambdas."""
    todo = [node]
    first = True
    while todo:
        n = todo.pop()
        if not first and isinstance(n, (ast.FunctionDef, ast.AsyncFunctionDef, ast.ClassDef)):
            continue
        if not first or include_root:
            yield n
        first = False
        todo.extend(ast.iter_child_nodes(n))


def calls(node, nested=True):
    it = ast.walk(node) if nested else walk_no_nested(node)
    return [n for n in it if isinstance(n, ast.Call)]


def call_name(call):
    """Dotted name of the callee ('Thm', 'self.get_theorem', 'x.is_var') or None."""
    return dotted(call.func)


def call_attr(call):
    """Method name for attribute calls, function name for plain calls."""
    if isinstance(call.func, ast.Attribute):
        return call.func.attr
    if isinstance(call.func, ast.Name):
        return call.func.id
    return None


def method_calls(node, attr):
    return [c for c in ast.walk(node) if isinstance(c, ast.Call)
            and isinstance(c.func, ast.Attribute) and c.func.attr == attr]


def name_calls(node, name):
    return [c for c in ast.walk(node) if isinstance(c, ast.Call)
            and isinstance(c.func, ast.Name) and c.func.id == name]


def names_in(node):
    return {n.id for n in ast.walk(node) if isinstance(n, ast.Name)}


def attrs_in(node):
    return {n.attr for n in ast.walk(node) if isinstance(n, ast.Attribute)}


def const_value(node, default=None):
    if isinstance(node, ast.Constant):
        return node.value
    if isinstance(node, ast.UnaryOp) and isinstance(node.op, ast.USub) and isinstance(node.operand, ast.Constant):
        return -node.operand.value
    return default


def is_const(node, value):
    return isinstance(node, ast.Constant) and node.value is value or \
        (isinstance(node, ast.Constant) and type(node.value) is type(value) and node.value == value)


def returns_of(funcnode):
    return [n for n in walk_no_nested(funcnode, include_root=False) if isinstance(n, ast.Return)]


def raises_in(nodes):
    for s in nodes:
        for n in ast.walk(s):
            if isinstance(n, ast.Raise):
                return True
    return False


def compare_parts(expr):
    """For a single-operator Compare returns (op class, left, right) else None."""
    if isinstance(expr, ast.Compare) and len(expr.ops) == 1:
        return type(expr.ops[0]), expr.left, expr.comparators[0]
    return None


def self_attr_stores(funcnode, selfname='self'):
    """[(attr, value node, stmt)] for `self.attr = value` (also tuple targets, aug-assign)."""
    res = []
    for n in ast.walk(funcnode):
        targets = []
        if isinstance(n, ast.Assign):
            for t in n.targets:
                if isinstance(t, (ast.Tuple, ast.List)):
                    targets.extend((e, None) for e in t.elts)
                else:
                    targets.append((t, n.value))
        elif isinstance(n, ast.AnnAssign):
            targets.append((n.target, n.value))
        elif isinstance(n, ast.AugAssign):
            targets.append((n.target, n.value))
        for t, v in targets:
            if isinstance(t, ast.Attribute) and isinstance(t.value, ast.Name) and t.value.id == selfname:
                res.append((t.attr, v, n))
    return res


def attr_stores(tree):
    """All attribute stores in a tree: [(target Attribute node, stmt)] incl. tuple targets,
    aug-assign, for-targets, with-as and del."""
    res = []

    def targets_of(t, stmt):
        if isinstance(t, ast.Attribute):
            res.append((t, stmt))
        elif isinstance(t, (ast.Tuple, ast.List)):
            for e in t.elts:
                targets_of(e, stmt)
        elif isinstance(t, ast.Starred):
            targets_of(t.value, stmt)
    for n in ast.walk(tree):
        if isinstance(n, ast.Assign):
            for t in n.targets:
                targets_of(t, n)
        elif isinstance(n, (ast.AnnAssign, ast.AugAssign)):
            targets_of(n.target, n)
        elif isinstance(n, (ast.For, ast.AsyncFor)):
            targets_of(n.target, n)
        elif isinstance(n, (ast.With, ast.AsyncWith)):
            for it in n.items:
                if it.optional_vars is not None:
                    targets_of(it.optional_vars, n)
    return res


def enclosing_map(tree):
    """child id -> parent node."""
    parent = {}
    for n in ast.walk(tree):
        for c in ast.iter_child_nodes(n):
            parent[id(c)] = n
    return parent


def is_name(node, name):
    return isinstance(node, ast.Name) and node.id == name


def path_of(node):
    ap = access_path(node) if isinstance(node, (ast.Name, ast.Attribute, ast.Subscript)) else None
    return None if ap is None else ap[0] + ap[1]


_NEG = {ast.Lt: ast.GtE, ast.GtE: ast.Lt, ast.Gt: ast.LtE, ast.LtE: ast.Gt, ast.Eq: ast.NotEq, ast.NotEq: ast.Eq,
        ast.Is: ast.IsNot, ast.IsNot: ast.Is, ast.In: ast.NotIn, ast.NotIn: ast.In}
_SWAP = {ast.Lt: ast.Gt, ast.Gt: ast.Lt, ast.LtE: ast.GtE, ast.GtE: ast.LtE, ast.Eq: ast.Eq, ast.NotEq: ast.NotEq, ast.Is: ast.Is, ast.IsNot: ast.IsNot}


def comparison_holding(expr, pol):
    """The comparison that holds when the atomic test `expr` takes the side `pol`, in both orientations:
    [(op class, left, right), (swapped op class, right, left)]; [] if expr is not a single comparison.
    `a > b` on its false side gives (LtE, a, b) and (GtE, b, a)."""
    cp = compare_parts(expr)
    if not cp:
        return []
    op, a, b = cp
    if not pol:
        op = _NEG.get(op)
        if op is None:
            return []
    out = [(op, a, b)]
    if op in _SWAP:
        out.append((_SWAP[op], b, a))
    return out
