"""Shapes of small sequences built from a premise: `th.hyps + (th.prop,)`, a comprehension over it, `X[:-1]`, `X[-1]`.

A description is a list of segments, outermost operations applied last:
  ('all', path, maps)   every element of the sequence at `path` (e.g. 'th.hyps'), each mapped through `maps`
  ('one', expr, maps)   the single element `expr`, mapped through `maps`
`maps` is a list of (variable name, element expression) pairs of the comprehensions applied, innermost first.
None means: not a sequence this module can describe."""
import ast

from .astutil import path_of, is_name


def describe(flow, e, depth=0):
    if depth > 8:
        return None
    while isinstance(e, ast.Call) and isinstance(e.func, ast.Name) and e.func.id in ('tuple', 'list') and len(e.args) == 1 and not e.keywords:
        e = e.args[0]
    if isinstance(e, ast.Starred):
        e = e.value
    if isinstance(e, ast.Name) and flow.is_local(e.id):
        ds = flow.defs.get(e.id, [])
        if len(ds) == 1 and ds[0][0] == 'value':
            return describe(flow, ds[0][1], depth + 1)
        return None
    p = path_of(e) if isinstance(e, (ast.Name, ast.Attribute)) else None
    if p is not None and '.' in p:
        return [('all', p, [])]
    if isinstance(e, (ast.Tuple, ast.List)):
        out = []
        for x in e.elts:
            if isinstance(x, ast.Starred):
                d = describe(flow, x.value, depth + 1)
                if d is None:
                    return None
                out += d
            else:
                out.append(('one', x, []))
        return out
    if isinstance(e, ast.BinOp) and isinstance(e.op, ast.Add):
        a, b = describe(flow, e.left, depth + 1), describe(flow, e.right, depth + 1)
        if a is None or b is None:
            return None
        return a + b
    if isinstance(e, (ast.ListComp, ast.GeneratorExp)) and len(e.generators) == 1 and not e.generators[0].ifs and isinstance(e.generators[0].target, ast.Name):
        d = describe(flow, e.generators[0].iter, depth + 1)
        if d is None:
            return None
        m = (e.generators[0].target.id, e.elt)
        return [(k, x, maps + [m]) for k, x, maps in d]
    if isinstance(e, ast.Subscript) and isinstance(e.slice, ast.Slice):
        d = describe(flow, e.value, depth + 1)
        s = e.slice
        if d is None or s.step is not None:
            return None
        lo = s.lower.value if isinstance(s.lower, ast.Constant) else (None if s.lower is None else 'x')
        hi = _int(s.upper) if s.upper is not None else None
        if lo is None and hi == -1 and d and d[-1][0] == 'one':
            return d[:-1]
        if lo is None and hi is None:
            return d
        return None
    return None


def element(flow, e, depth=0):
    """`X[-1]` / `X[0]` of a described sequence whose last / first segment is a single element: (expr, maps) or None"""
    if isinstance(e, ast.Name) and flow.is_local(e.id):
        ds = flow.defs.get(e.id, [])
        if len(ds) == 1 and ds[0][0] == 'value':
            return element(flow, ds[0][1], depth + 1)
        return None
    if isinstance(e, ast.Subscript) and not isinstance(e.slice, ast.Slice):
        k = _int(e.slice)
        d = describe(flow, e.value)
        if d is None or k is None:
            return None
        if k == -1 and d[-1][0] == 'one':
            return d[-1][1], d[-1][2]
        if k == 0 and d[0][0] == 'one':
            return d[0][1], d[0][2]
    return None


def _int(n):
    if isinstance(n, ast.Constant) and isinstance(n.value, int):
        return n.value
    if isinstance(n, ast.UnaryOp) and isinstance(n.op, ast.USub) and isinstance(n.operand, ast.Constant) and isinstance(n.operand.value, int):
        return -n.operand.value
    return None


def applied(maps, var_expr_text):
    """the element expression after the maps, with the innermost comprehension variable replaced by a text: for a single map
    (`t`, `t.subst(inst)`) and 'hyp' gives the call node and its variable"""
    return maps
