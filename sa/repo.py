"""A1 module index, A4 import graph, A5 name-resolved call graph over the working tree.

Everything is computed from `ast.parse` of the files under the repository root; no holpy
module is imported.
"""
import ast
import warnings
import os

from .core import AnalysisError, need

EXCLUDE_DIRS = {'node_modules', '.git', '__pycache__', 'dist', 'static'}


def is_test_path(rel):
    return '/tests/' in '/' + rel or rel.endswith('_test.py') or rel.startswith('tests/')


class FuncInfo:
    def __init__(self, module, node, cls=None, parent=None):
        self.module = module
        self.node = node
        self.cls = cls
        self.parent = parent
        self.name = node.name
        if parent is not None:
            self.qualname = parent.qualname + '.<locals>.' + node.name
        elif cls is not None:
            self.qualname = cls.name + '.' + node.name
        else:
            self.qualname = node.name
        self.nested = {}

    @property
    def key(self):
        return '%s :: %s' % (self.module.rel, self.qualname)

    @property
    def loc(self):
        return '%s:%d' % (self.module.rel, self.node.lineno)

    def params(self):
        a = self.node.args
        return [x.arg for x in a.posonlyargs + a.args] + ([a.vararg.arg] if a.vararg else []) + \
            [x.arg for x in a.kwonlyargs] + ([a.kwarg.arg] if a.kwarg else [])

    def decorators(self):
        return [dotted(d.func if isinstance(d, ast.Call) else d) for d in self.node.decorator_list]

    def __repr__(self):
        return '<Func %s>' % self.key


class ClassInfo:
    def __init__(self, module, node):
        self.module = module
        self.node = node
        self.name = node.name
        self.methods = {}
        self.base_exprs = [dotted(b) for b in node.bases]
        self.bases = []      # resolved ClassInfo

    @property
    def key(self):
        return '%s :: %s' % (self.module.rel, self.name)

    @property
    def loc(self):
        return '%s:%d' % (self.module.rel, self.node.lineno)

    def mro(self):
        seen, out, todo = set(), [], [self]
        while todo:
            c = todo.pop(0)
            if id(c) in seen:
                continue
            seen.add(id(c))
            out.append(c)
            todo.extend(c.bases)
        return out

    def find_method(self, name):
        for c in self.mro():
            if name in c.methods:
                return c.methods[name]
        return None

    def is_subclass_of(self, other):
        return any(c is other for c in self.mro())

    def decorators(self):
        res = []
        for d in self.node.decorator_list:
            if isinstance(d, ast.Call):
                res.append((dotted(d.func), d))
            else:
                res.append((dotted(d), None))
        return res

    def init_const(self, attr):
        """Value node assigned to self.<attr> in __init__ (own or inherited), or None."""
        for c in self.mro():
            init = c.methods.get('__init__')
            if init is None:
                continue
            found = None
            for n in ast.walk(init.node):
                if isinstance(n, ast.Assign):
                    for t in n.targets:
                        if isinstance(t, ast.Attribute) and isinstance(t.value, ast.Name) \
                                and t.value.id == 'self' and t.attr == attr:
                            found = n.value
            if found is not None:
                return found
        return None

    def __repr__(self):
        return '<Class %s>' % self.key


def dotted(node):
    """'a.b.c' for Name/Attribute chains, else None."""
    parts = []
    while isinstance(node, ast.Attribute):
        parts.append(node.attr)
        node = node.value
    if isinstance(node, ast.Name):
        parts.append(node.id)
        return '.'.join(reversed(parts))
    return None


class Module:
    def __init__(self, repo, rel, source):
        self.repo = repo
        self.rel = rel
        self.source = source
        self.name = rel[:-3].replace('/', '.')
        if self.name.endswith('.__init__'):
            self.name = self.name[:-9]
        with warnings.catch_warnings():
            warnings.simplefilter("ignore")
            self.tree = ast.parse(source, filename=rel)
        self.is_test = is_test_path(rel)
        self.functions = {}      # top-level
        self.classes = {}
        self.class_list = []     # every ClassDef at module level, duplicates of a name included
        self.all_funcs = []      # incl. methods and nested
        self.bindings = {}       # local name -> ('module', modname) | ('object', modname, objname)
        self.imports = []        # (modname, lineno, lazy: bool, node, owner FuncInfo|None, names)
        self._index()

    # ------------------------------------------------------------------
    def _index(self):
        for node in self.tree.body:
            self._index_stmt(node, None, None)
        # imports
        self._collect_imports(self.tree, None, top=True)

    def _index_stmt(self, node, cls, parent):
        if isinstance(node, (ast.FunctionDef, ast.AsyncFunctionDef)):
            fi = FuncInfo(self, node, cls=cls if parent is None else None, parent=parent)
            self.all_funcs.append(fi)
            if parent is not None:
                parent.nested[node.name] = fi
            elif cls is not None:
                cls.methods[node.name] = fi
            else:
                self.functions[node.name] = fi
            for sub in ast.walk(node):
                pass
            self._index_body(node.body, None, fi)
        elif isinstance(node, ast.ClassDef):
            if cls is None and parent is None:
                ci = ClassInfo(self, node)
                self.classes[node.name] = ci
                self.class_list.append(ci)
                for sub in node.body:
                    self._index_stmt(sub, ci, None)
        elif isinstance(node, (ast.If, ast.Try, ast.With, ast.For, ast.While)):
            # definitions under module-level conditionals
            for fld in ('body', 'orelse', 'finalbody'):
                for sub in getattr(node, fld, []) or []:
                    self._index_stmt(sub, cls, parent)
            for h in getattr(node, 'handlers', []) or []:
                for sub in h.body:
                    self._index_stmt(sub, cls, parent)

    def _index_body(self, body, cls, parent):
        for node in body:
            if isinstance(node, (ast.FunctionDef, ast.AsyncFunctionDef)):
                self._index_stmt(node, None, parent)
            elif isinstance(node, (ast.If, ast.Try, ast.With, ast.For, ast.While)):
                for fld in ('body', 'orelse', 'finalbody'):
                    self._index_body(getattr(node, fld, []) or [], None, parent)
                for h in getattr(node, 'handlers', []) or []:
                    self._index_body(h.body, None, parent)

    def _resolve_from(self, node):
        """Absolute module name for an ImportFrom."""
        if node.level == 0:
            return node.module or ''
        pkg = self.name.split('.')
        if not self.rel.endswith('__init__.py'):
            pkg = pkg[:-1]
        pkg = pkg[:len(pkg) - (node.level - 1)]
        return '.'.join(pkg + ([node.module] if node.module else []))

    def _collect_imports(self, tree, owner, top):
        def visit(node, owner, lazy):
            for child in ast.iter_child_nodes(node):
                if isinstance(child, (ast.FunctionDef, ast.AsyncFunctionDef)):
                    fi = self._func_for_node(child)
                    visit(child, fi, True)
                elif isinstance(child, ast.Import):
                    for a in child.names:
                        self.imports.append((a.name, child.lineno, lazy, child, owner, None))
                        if not lazy:
                            if a.asname:
                                self.bindings[a.asname] = ('module', a.name)
                            else:
                                self.bindings[a.name.split('.')[0]] = ('module', a.name.split('.')[0])
                elif isinstance(child, ast.ImportFrom):
                    base = self._resolve_from(child)
                    for a in child.names:
                        self.imports.append((base, child.lineno, lazy, child, owner, a.name))
                        if not lazy and a.name != '*':
                            self.bindings[a.asname or a.name] = ('object', base, a.name)
                else:
                    visit(child, owner, lazy)
        visit(tree, owner, False)

    def _func_for_node(self, node):
        for f in self.all_funcs:
            if f.node is node:
                return f
        return None

    def func(self, qualname):
        for f in self.all_funcs:
            if f.qualname == qualname:
                return f
        # `A.<locals>.rec` where A now only hands over to a worker (`return self._worker(..)`): the worker's `rec`
        if '.<locals>.' in qualname:
            outer, inner = qualname.split('.<locals>.', 1)
            o = self.func(outer)
            h = self._delegate(o) if o is not None else None
            if h is not None:
                return self.func(h.qualname + '.<locals>.' + inner)
        return None

    def _delegate(self, f):
        """the function f hands over to, if its body is a single `return <call>` of a method of its class or a function of the module"""
        body = [s for s in f.node.body if not (isinstance(s, ast.Expr) and isinstance(s.value, ast.Constant))]
        if len(body) != 1 or not isinstance(body[0], ast.Return) or not isinstance(body[0].value, ast.Call):
            return None
        fn = body[0].value.func
        if isinstance(fn, ast.Attribute) and isinstance(fn.value, ast.Name) and f.cls is not None and fn.value.id in ('self', 'cls', f.cls.name):
            h = f.cls.find_method(fn.attr)
        elif isinstance(fn, ast.Name):
            h = self.functions.get(fn.id)
        else:
            h = None
        return h if h is not None and h is not f and h.module is self else None


class Repo:
    def __init__(self, root):
        self.root = root
        self.modules = {}        # rel -> Module
        self.by_name = {}        # dotted -> Module
        self.parse_errors = []
        for dirpath, dirnames, filenames in os.walk(root):
            dirnames[:] = sorted(d for d in dirnames if d not in EXCLUDE_DIRS)
            for fn in sorted(filenames):
                if not fn.endswith('.py'):
                    continue
                full = os.path.join(dirpath, fn)
                rel = os.path.relpath(full, root)
                try:
                    with open(full, encoding='utf-8') as f:
                        src = f.read()
                    m = Module(self, rel, src)
                except (SyntaxError, UnicodeDecodeError, ValueError) as e:
                    self.parse_errors.append((rel, str(e)))
                    continue
                self.modules[rel] = m
                self.by_name[m.name] = m
        self._resolve_bases()

    # ------------------------------------------------------------------ lookups
    def module(self, rel):
        return need(self.modules.get(rel), 'anchor file %s not found or not parseable' % rel)

    def func(self, rel, qualname):
        m = self.module(rel)
        return need(m.func(qualname), 'anchor function %s :: %s not found' % (rel, qualname))

    def cls(self, rel, name):
        m = self.module(rel)
        return need(m.classes.get(name), 'anchor class %s :: %s not found' % (rel, name))

    def opt_func(self, rel, qualname):
        m = self.modules.get(rel)
        return m.func(qualname) if m else None

    def source_modules(self):
        return [m for m in self.modules.values() if not m.is_test]

    # ------------------------------------------------------------------ names
    def resolve_name(self, module, name):
        """Resolve a (possibly dotted) name used in `module` to Module | ClassInfo | FuncInfo | None."""
        parts = name.split('.')
        head = parts[0]
        obj = None
        if head in module.classes:
            obj = module.classes[head]
        elif head in module.functions:
            obj = module.functions[head]
        elif head in module.bindings:
            b = module.bindings[head]
            if b[0] == 'module':
                obj = self.by_name.get(b[1])
                if obj is None:
                    # 'import a.b' binds 'a'; try longest dotted prefix
                    for k in range(len(parts), 0, -1):
                        mm = self.by_name.get('.'.join(parts[:k]))
                        if mm is not None:
                            obj = mm
                            parts = parts[k - 1:]
                            break
            else:
                src = self.by_name.get(b[1])
                sub = self.by_name.get(b[1] + '.' + b[2]) if b[1] else self.by_name.get(b[2])
                if src is not None and (b[2] in src.classes or b[2] in src.functions):
                    obj = src.classes.get(b[2]) or src.functions.get(b[2])
                elif sub is not None:
                    obj = sub
                elif src is not None and b[2] in src.bindings and src is not module:
                    obj = self.resolve_name(src, b[2])
        if obj is None:
            return None
        for p in parts[1:]:
            if isinstance(obj, Module):
                nxt = obj.classes.get(p) or obj.functions.get(p)
                if nxt is None:
                    sub = self.by_name.get(obj.name + '.' + p)
                    if sub is not None:
                        nxt = sub
                    elif p in obj.bindings:
                        nxt = self.resolve_name(obj, p)
                obj = nxt
            elif isinstance(obj, ClassInfo):
                obj = obj.find_method(p)
            else:
                obj = None
            if obj is None:
                return None
        return obj

    def _resolve_bases(self):
        for m in self.modules.values():
            for c in m.class_list:
                for b in c.base_exprs:
                    if b is None:
                        continue
                    r = self.resolve_name(m, b)
                    if isinstance(r, ClassInfo):
                        c.bases.append(r)

    def all_classes(self, include_tests=False):
        for m in self.modules.values():
            if m.is_test and not include_tests:
                continue
            for c in m.class_list:
                yield c

    def subclasses_of(self, base, include_tests=False, strict=True):
        res = []
        for c in self.all_classes(include_tests):
            if c.is_subclass_of(base) and (c is not base or not strict):
                res.append(c)
        return res

    # ------------------------------------------------------------------ calls
    def resolve_call(self, func, call):
        """FuncInfo targets of ast.Call `call` occurring inside FuncInfo `func` (or a Module)."""
        module = func.module if isinstance(func, FuncInfo) else func
        f = call.func
        # nested function / local name
        if isinstance(f, ast.Name):
            fi = func if isinstance(func, FuncInfo) else None
            while fi is not None:
                if f.id in fi.nested:
                    return [fi.nested[f.id]]
                fi = fi.parent
        if isinstance(f, ast.Attribute) and isinstance(f.value, ast.Name) and f.value.id in ('self', 'cls'):
            owner = func
            while isinstance(owner, FuncInfo) and owner.cls is None and owner.parent is not None:
                owner = owner.parent
            if isinstance(owner, FuncInfo) and owner.cls is not None:
                m = owner.cls.find_method(f.attr)
                if m is not None:
                    # also overriding methods in subclasses
                    res = [m]
                    for sub in self.subclasses_of(owner.cls):
                        if f.attr in sub.methods and sub.methods[f.attr] not in res:
                            res.append(sub.methods[f.attr])
                    return res
            return []
        name = dotted(f)
        r = self.resolve_name(module, name) if name is not None else None
        if isinstance(r, FuncInfo):
            return [r]
        if isinstance(r, ClassInfo):
            init = r.find_method('__init__')
            return [init] if init else []
        # call through a parameter whose default value is a repository function
        if isinstance(f, ast.Name) and isinstance(func, FuncInfo):
            fi = func
            while fi is not None:
                a = fi.node.args
                names = [x.arg for x in a.posonlyargs + a.args]
                defaults = dict(zip(names[len(names) - len(a.defaults):], a.defaults))
                defaults.update({k.arg: d for k, d in zip(a.kwonlyargs, a.kw_defaults) if d is not None})
                d = defaults.get(f.id)
                if d is not None and dotted(d):
                    r2 = self.resolve_name(module, dotted(d))
                    if isinstance(r2, FuncInfo):
                        return [r2]
                fi = fi.parent
        # method call on a receiver of unknown type: resolved when exactly one class of the
        # repository (tests excluded) defines a method of that name
        if isinstance(f, ast.Attribute):
            cands = self.method_index().get(f.attr, [])
            if len(cands) == 1:
                return list(cands)
        return []

    def method_index(self):
        if not hasattr(self, '_method_index'):
            idx = {}
            for c in self.all_classes():
                for nm, m in c.methods.items():
                    idx.setdefault(nm, []).append(m)
            self._method_index = idx
        return self._method_index

    def callees(self, func):
        """(call node, target) pairs; a repository function passed as an argument counts as a
        possible callee (it escapes into the callee, which may call it)."""
        res = []
        for n in ast.walk(func.node):
            if isinstance(n, ast.Call):
                for t in self.resolve_call(func, n):
                    res.append((n, t))
                for a in list(n.args) + [k.value for k in n.keywords]:
                    nm = dotted(a)
                    if nm and not (isinstance(a, ast.Name) and a.id in ('self', 'cls')):
                        r = self.resolve_name(func.module, nm)
                        if isinstance(r, FuncInfo):
                            res.append((n, r))
        return res

    def reachable_funcs(self, entries, depth=None):
        """Transitive closure of resolved calls from the given FuncInfos, breadth first, to the given
        call depth; nested functions of a reached function are reached at the same depth."""
        seen = {}
        frontier = list(entries)
        d = 0
        while frontier:
            nxt = []
            todo = list(frontier)
            while todo:
                f = todo.pop()
                if id(f) in seen:
                    continue
                seen[id(f)] = f
                todo.extend(f.nested.values())
                if depth is None or d < depth:
                    for _, t in self.callees(f):
                        if id(t) not in seen:
                            nxt.append(t)
            frontier = nxt
            d += 1
        return list(seen.values())

    # ------------------------------------------------------------------ imports
    def import_target(self, modname, name=None):
        """Repo modules an import statement loads (module and its parent packages are ignored)."""
        res = []
        if name and name != '*':
            sub = self.by_name.get((modname + '.' + name) if modname else name)
            if sub is not None:
                res.append(sub)
        m = self.by_name.get(modname)
        if m is not None:
            res.append(m)
        return res

    def toplevel_import_closure(self, module):
        """Modules loaded (transitively, through module-level imports only) by importing `module`."""
        seen = {}
        todo = [module]
        while todo:
            m = todo.pop()
            if m.rel in seen:
                continue
            seen[m.rel] = m
            for (modname, _ln, lazy, _node, _owner, name) in m.imports:
                if lazy:
                    continue
                for t in self.import_target(modname, name):
                    todo.append(t)
        return list(seen.values())


_cache = {}


def load(root):
    root = os.path.abspath(root)
    if root not in _cache:
        if not os.path.isdir(root):
            raise AnalysisError('repository root %s not found' % root)
        _cache[root] = Repo(root)
    return _cache[root]
