"""Recognisers for idioms that several rules need in more than one spelling."""
import ast

from .astutil import is_name, src


def forall_not_edges(cfg, seq_ok, elem_test):
    """CFG edges after which  `for every v in SEQ: not TEST(v)`  is known.

    seq_ok(iter expression) -> bool selects the sequence; elem_test(expression, loop variable name) -> info | None
    recognises TEST.  Spellings:
      any(TEST(v) for v in SEQ)          the false edge of the test node
      not all(not TEST(v) for v in SEQ)  (rare; not recognised)
      for v in SEQ: if TEST(v): raise    the 'done' edge of the loop, when every path from the loop entry back to the
                                         loop head passes the false edge of TEST (the true edge leaves by raise / return)
    Returns (edges, infos)."""
    edges, infos = set(), []
    for n in cfg.test_nodes():
        e = n.ast
        if isinstance(e, ast.Call) and is_name(e.func, 'any') and len(e.args) == 1 and isinstance(e.args[0], (ast.GeneratorExp, ast.ListComp)):
            g = e.args[0]
            if len(g.generators) == 1 and not g.generators[0].ifs and isinstance(g.generators[0].target, ast.Name) and seq_ok(g.generators[0].iter):
                info = elem_test(g.elt, g.generators[0].target.id)
                if info is not None:
                    edges.add((n.id, 'false'))
                    infos.append(info)
    for it in [n for n in cfg.nodes if n.kind == 'iter' and isinstance(n.ast, ast.For)]:
        loop = it.ast
        if not (isinstance(loop.target, ast.Name) and seq_ok(loop.iter)) or loop.orelse:
            continue
        v = loop.target.id
        body_nodes = {id(x) for st in loop.body for x in ast.walk(st)}
        tests = []
        for n in cfg.test_nodes():
            if id(n.ast) in body_nodes:
                info = elem_test(n.ast, v)
                if info is not None:
                    tests.append((n, info))
        if not tests:
            continue
        passed = {(n.id, 'false') for n, _i in tests}
        entry = [b for b, l in it.succ if l == 'loop']
        if not entry:
            continue
        # the true side must not come back to the loop head or fall out of the loop normally
        bad_true = False
        for n, _i in tests:
            for b, l in n.succ:
                if l == 'true':
                    r = cfg.reach_from([b])
                    if it.id in r or cfg.exit.id in r and not _only_by_raise_or_reject(cfg, b):
                        bad_true = True
        if bad_true:
            continue
        if cfg.path_avoiding(it, skip_edges=passed, start=entry[0]) is None:
            edges.add((it.id, 'done'))
            infos += [i for _n, i in tests]
    return edges, infos


def _only_by_raise_or_reject(cfg, node):
    """every way from node to the exit goes through a raise (the exit is reached abruptly)"""
    raises = [n for n in cfg.nodes if n.kind == 'stmt' and isinstance(n.ast, ast.Raise)]
    return cfg.exit.id not in cfg.reach_from([node], skip_nodes=raises)


def body_as_expression(stmts):
    """The value of a block that consists of `if` / `elif` / `else` and `return <expr>` only, as one conditional
    expression; None if the block has any other statement or can fall off its end."""
    stmts = [s for s in stmts if not (isinstance(s, ast.Expr) and isinstance(s.value, ast.Constant))]
    if not stmts:
        return None
    s = stmts[0]
    if isinstance(s, ast.Return) and s.value is not None:
        return s.value
    if isinstance(s, ast.If):
        a = body_as_expression(s.body)
        b = body_as_expression(s.orelse) if s.orelse else body_as_expression(stmts[1:])
        if a is None or b is None:
            return None
        return ast.IfExp(test=s.test, body=a, orelse=b)
    return None


def inline_pure_helpers(expr, helpers, depth=3):
    """Replace calls `h(a, b)` of helpers (name -> FuncInfo) whose body is a pure if / return chain by that chain with the
    parameters replaced by the arguments."""
    import copy

    class Sub(ast.NodeTransformer):
        def __init__(self, m):
            self.m = m

        def visit_Name(self, node):
            if isinstance(node.ctx, ast.Load) and node.id in self.m:
                return copy.deepcopy(self.m[node.id])
            return node

    class T(ast.NodeTransformer):
        def visit_Call(self, node):
            self.generic_visit(node)
            if isinstance(node.func, ast.Name) and node.func.id in helpers and not node.keywords and depth > 0:
                h = helpers[node.func.id]
                ps = h.params()
                if len(ps) == len(node.args):
                    body = body_as_expression(h.node.body)
                    if body is not None:
                        e = Sub(dict(zip(ps, node.args))).visit(copy.deepcopy(body))
                        return inline_pure_helpers(e, helpers, depth - 1)
            return node
    return ast.fix_missing_locations(T().visit(copy.deepcopy(expr)))


def emptiness_holding(expr, pol, name):
    """The atomic test `expr`, taken on side `pol`, establishes that the sequence `name` is empty:
    len(name) == 0 (true side), len(name) != 0 / > 0 / >= 1 (false side), `name` itself (false side: `not name`)."""
    from .astutil import comparison_holding
    if isinstance(expr, ast.Name) and expr.id == name:
        return not pol
    for op, a, b in comparison_holding(expr, pol):
        if isinstance(a, ast.Call) and isinstance(a.func, ast.Name) and a.func.id == 'len' and len(a.args) == 1 and is_name(a.args[0], name) and \
                isinstance(b, ast.Constant) and isinstance(b.value, int):
            if (op is ast.Eq and b.value == 0) or (op is ast.LtE and b.value == 0) or (op is ast.Lt and b.value == 1):
                return True
    return False


def loop_table_values(funcnode, name, module=None):
    """The expressions a loop variable stands for when the loop runs over a table written out in the source:
    `for sig, parse in ((A, f), (B, g)): if x == sig` - `sig` is A or B.  The table is the loop's iterable, a local
    assigned once, or a module-level constant.  None if `name` is not such a variable."""
    from .flow import flow_of
    flow = flow_of(funcnode)
    out = []
    found = False
    for n in ast.walk(funcnode):
        if not isinstance(n, (ast.For, ast.comprehension)):
            continue
        tgt = n.target
        pos = None
        if isinstance(tgt, ast.Name) and tgt.id == name:
            pos = ()
        elif isinstance(tgt, (ast.Tuple, ast.List)):
            for i, e in enumerate(tgt.elts):
                if isinstance(e, ast.Name) and e.id == name:
                    pos = (i,)
        if pos is None:
            continue
        it = flow.inline(n.iter)
        if isinstance(it, ast.Name) and module is not None:
            for st in module.tree.body:
                if isinstance(st, ast.Assign) and any(isinstance(t, ast.Name) and t.id == it.id for t in st.targets):
                    it = st.value
        if not isinstance(it, (ast.Tuple, ast.List)):
            return None
        for row in it.elts:
            if pos == ():
                out.append(row)
            elif isinstance(row, (ast.Tuple, ast.List)) and len(row.elts) == len(tgt.elts):
                out.append(row.elts[pos[0]])
            else:
                return None
        found = True
    return out if found else None


def dedup_sites(funcnode):
    """[(append call, element, membership test key, [keys added to the seen-set])] for the pattern
        if K not in SEEN: OUT.append(E); SEEN.add(K')
    (SEEN a local set / dict / list other than OUT, or OUT itself: `if E not in OUT`) anywhere in the function, nested
    functions included.  The pattern keeps the first of all elements that agree on K."""
    from .astutil import compare_parts
    out = []
    for n in ast.walk(funcnode):
        if not isinstance(n, ast.If):
            continue
        cp = compare_parts(n.test)
        if not cp or cp[0] is not ast.NotIn or not isinstance(cp[2], ast.Name):
            continue
        key, seen = cp[1], cp[2].id
        apps = [c for st in n.body for c in ast.walk(st) if isinstance(c, ast.Call) and isinstance(c.func, ast.Attribute) and
                c.func.attr == 'append' and isinstance(c.func.value, ast.Name) and len(c.args) == 1]
        adds = [c.args[0] for st in n.body for c in ast.walk(st) if isinstance(c, ast.Call) and isinstance(c.func, ast.Attribute) and
                c.func.attr == 'add' and is_name(c.func.value, seen) and len(c.args) == 1]
        for a in apps:
            if a.func.value.id == seen or adds:
                out.append((a, a.args[0], key, adds))
    return out
