"""Single-site edits for the self-test matrix.  `old` must occur exactly once in `file` (else the edit is
skipped on that tree).  Breaking edits name the rule (and a fragment of the instance key) that must fire;
neutral edits are behaviour-preserving refactorings that must leave every rule silent."""

EDITS = []


def B(prop, id, file, old, new, rule, key='', more=()):
    EDITS.append({'prop': prop, 'id': id, 'kind': 'breaking', 'file': file, 'old': old, 'new': new,
                  'expect_rule': rule, 'expect_key': key, 'more': list(more)})


def N(prop, id, file, old, new, more=()):
    EDITS.append({'prop': prop, 'id': id, 'kind': 'neutral', 'file': file, 'old': old, 'new': new, 'more': list(more)})


THM = 'kernel/thm.py'
TERM = 'kernel/term.py'
THEORY = 'kernel/theory.py'

# ------------------------------------------------------------------------------------------- C01
B('C01', 'implies_elim drops hyps of second premise', THM,
  'if A == th2.prop:\n                return Thm(B, th1.hyps, th2.hyps)\n            else:\n                raise InvalidDerivationException("implies_elim: "',
  'if A == th2.prop:\n                return Thm(B, th1.hyps)\n            else:\n                raise InvalidDerivationException("implies_elim: "',
  'C01.K1', 'Thm.implies_elim :: hyps-of(th2)')
B('C01', 'subst_type drops hyps', THM,
  'prop_new = th.prop.subst_type(tyinst)\n        return Thm(prop_new, hyps_new)',
  'prop_new = th.prop.subst_type(tyinst)\n        return Thm(prop_new)', 'C01.K1', 'Thm.subst_type')
B('C01', 'implies_intr drops every hypothesis', THM,
  'return Thm(Implies(A, th.prop), tuple(t for t in th.hyps if t != A))',
  'return Thm(Implies(A, th.prop), tuple(t for t in th.hyps if t != th.prop))', 'C01.K1', 'Thm.implies_intr')
B('C01', 'equal_intr does not compare B', THM,
  'if A1 == A2 and B1 == B2:', 'if A1 == A2:', 'C01.K2', 'Thm.equal_intr :: component(B2)')
B('C01', 'transitive does not compare middle terms', THM,
  '            if y1 == y2:\n                return Thm(Eq(x, z), th1.hyps, th2.hyps)\n            else:\n                raise InvalidDerivationException("transitive: %s != %s" % (str(y1), str(y2)))',
  '            return Thm(Eq(x, z), th1.hyps, th2.hyps)', 'C01.K2', 'Thm.transitive')
B('C01', 'combination without domain type test', THM,
  'if Tf.is_fun() and Tf.domain_type() == x.get_type():', 'if Tf.is_fun():', 'C01.K2', 'Thm.combination :: type-link')
B('C01', 'forall_elim without type test', THM,
  '            if th.prop.arg.var_T != s.get_type():\n                raise InvalidDerivationException("forall_elim: type is not equal")\n            else:\n                return Thm(th.prop.arg.subst_bound(s), th.hyps)',
  '            return Thm(th.prop.arg.subst_bound(s), th.hyps)', 'C01.K2', 'Thm.forall_elim :: type-link')
B('C01', 'abstraction without side condition', THM,
  '        if any(hyp.occurs_var(x) for hyp in th.hyps):\n            raise InvalidDerivationException("abstraction: variable occurs in assmptions")\n        elif th.is_equals():',
  '        if th.is_equals():', 'C01.K3', 'Thm.abstraction :: side-condition-guard')
B('C01', 'forall_intr side condition uses all()', THM,
  '        if any(hyp.occurs_var(x) for hyp in th.hyps):\n            raise InvalidDerivationException("forall_intr")',
  '        if all(hyp.occurs_var(x) for hyp in th.hyps):\n            raise InvalidDerivationException("forall_intr")',
  'C01.K3', 'Thm.forall_intr :: side-condition-guard')
B('C01', 'occurs_var blind for schematic variables', TERM,
  '        if self.is_svar() or self.is_var():\n            return self == t\n        elif self.is_const():\n            return False\n        elif self.is_comb():\n            return self.fun.occurs_var(t)',
  '        if self.is_svar():\n            return False\n        if self.is_var():\n            return self == t\n        elif self.is_const():\n            return False\n        elif self.is_comb():\n            return self.fun.occurs_var(t)',
  'C01.K3', 'binder-kind')
B('C01', 'occurs_var skips the argument of a combination', TERM,
  'return self.fun.occurs_var(t) or self.arg.occurs_var(t)', 'return self.fun.occurs_var(t)', 'C01.K3', 'traverses(comb)')
B('C01', 'step type check removed', THEORY,
  '        try:\n            seq.th.check_thm_type()\n        except TypeCheckException:\n            raise CheckProofException("typing error")',
  '        pass', 'C01.K4', 'typecheck-after')
B('C01', 'type check failure swallowed', THEORY,
  '        except TypeCheckException:\n            raise CheckProofException("typing error")',
  '        except TypeCheckException:\n            pass', 'C01.K4', 'typecheck-after')
B('C01', 'variable step takes its sequent from the step', THEORY,
  'res_th = Thm.mk_VAR(Var(nm, T))', 'res_th = seq.th if seq.th is not None else Thm.mk_VAR(Var(nm, T))', 'C01.K6', 'res_th <-')
B('C01', 'macro evaluated whatever its trust level', THEORY,
  'if macro.level is not None and macro.level <= check_level:', 'if macro.level is not None:', 'C01.K6', 'trust-gate')
B('C01', 'primitive_deriv row points to another rule', THM,
  '"equal_elim" : (Thm.equal_elim, None),', '"equal_elim" : (Thm.implies_elim, None),', 'C01.K5', 'primitive_deriv[equal_elim]')
N('C01', 'symmetric: rename locals', THM,
  'x, y = th.prop.args\n            return Thm(Eq(y, x), th.hyps)', 'lhs, rhs = th.prop.args\n            return Thm(Eq(rhs, lhs), th.hyps)')
N('C01', 'implies_elim in early-raise form', THM,
  '        if th1.prop.is_implies():\n            A, B = th1.prop.args\n            if A == th2.prop:\n                return Thm(B, th1.hyps, th2.hyps)\n            else:\n                raise InvalidDerivationException("implies_elim: " + str(A) + " != " + str(th2.prop))\n        else:\n            raise InvalidDerivationException("implies_elim: " + str(th1.prop) + " is not implies")',
  '        if not th1.prop.is_implies():\n            raise InvalidDerivationException("implies_elim: " + str(th1.prop) + " is not implies")\n        A, B = th1.prop.args\n        if A != th2.prop:\n            raise InvalidDerivationException("implies_elim: " + str(A) + " != " + str(th2.prop))\n        return Thm(B, th1.hyps, th2.hyps)')
N('C01', 'implies_intr: hypotheses through a local', THM,
  'return Thm(Implies(A, th.prop), tuple(t for t in th.hyps if t != A))',
  'rest = tuple(h for h in th.hyps if h != A)\n        return Thm(Implies(A, th.prop), rest)')
N('C01', 'trust gate with swapped comparison', THEORY,
  'if macro.level is not None and macro.level <= check_level:', 'if macro.level is not None and check_level >= macro.level:')

# ------------------------------------------------------------------------------------------- C02
B('C02', 'identifier test removed', THEORY,
  '                if not seq.id.can_depend_on(prev):\n                    raise CheckProofException("id %s cannot depend on %s" % (seq.id, prev))\n',
  '', 'C02.P1', 'identifier-test')
B('C02', 'position guard removed', THEORY,
  '                if prf.find_item(seq.id) is not seq:\n                    raise CheckProofException("id %s does not match position in proof" % seq.id)',
  '                pass', 'C02.P1', 'position-guard')
B('C02', 'gaps accepted although disallowed', THEORY,
  '            if no_gaps:\n                raise CheckProofException("gaps are not allowed")\n', '', 'C02.P2', 'refused-when-no_gaps')
B('C02', 'gap not reported', THEORY,
  '            if rpt is not None:\n                rpt.add_gap(seq.th)\n            return None', '            return None', 'C02.P2', 'sorry :: reported')
B('C02', 'no_gaps not forwarded into macro expansion', THEORY,
  '                    self._check_proof_items(prf, seq.subproof.items, seq.id.id, rpt, no_gaps, compute_only, check_level)\n                    res_th = seq.subproof.items[-1].th\n                    seq.subproof = None',
  '                    self._check_proof_items(prf, seq.subproof.items, seq.id.id, rpt, False, compute_only, check_level)\n                    res_th = seq.subproof.items[-1].th\n                    seq.subproof = None',
  'C02.P2', 'forwards-flags')
B('C02', 'stated sequent not compared', THEORY,
  '        elif not res_th.can_prove(seq.th):', '        elif False:', 'C02.P3', 'after(res_th')
B('C02', 'can_prove ignores hypotheses', THM,
  'return self.prop == target.prop and set(self.hyps).issubset(set(target.hyps))', 'return self.prop == target.prop', 'C02.P3', 'hyps-subset')
B('C02', 'can_prove subset reversed', THM,
  'set(self.hyps).issubset(set(target.hyps))', 'set(target.hyps).issubset(set(self.hyps))', 'C02.P3', 'hyps-subset')
B('C02', 'checked_extend allows gaps', THEORY,
  'res_th = self.check_proof(ext.prf, no_gaps=True)', 'res_th = self.check_proof(ext.prf)', 'C02.P4', 'gap-free-check')
B('C02', 'checked_extend does not compare conclusion', THEORY,
  '                    if not res_th.can_prove(ext.th):\n                        raise CheckProofException(\n                            "proof of %s does not conclude the stated theorem" % ext.name)\n',
  '', 'C02.P4', 'concludes-stated-theorem')
B('C02', 'axiom not reported', THEORY,
  '                else:  # No proof - add as axiom\n                    ext_report.add_axiom(ext.name, ext.th)\n', '', 'C02.P4', 'reported-as-axiom')
B('C02', 'ProofTerm.check does not report gaps', 'kernel/proofterm.py',
  "            elif pt.rule == 'sorry':\n                rpt.add_gap(pt.th)", "            elif pt.rule == 'sorry':\n                pass", 'C02.P5', 'sorry :: reported')
B('C02', 'check_proof skips the last item', THEORY,
  '        self._check_proof_items(prf, prf.items, tuple(), rpt, no_gaps, compute_only, check_level)\n\n        return prf.items[-1].th',
  '        self._check_proof_items(prf, prf.items[:-1], tuple(), rpt, no_gaps, compute_only, check_level)\n\n        return prf.items[-1].th',
  'C02.P7', 'all-items')
B('C02', 'unknown extension kind silently skipped', THEORY,
  '            elif ext.is_overload():\n                self.add_overload_const(ext.name)\n            else:\n                raise TypeError\n\n        return ext_report',
  '            elif ext.is_overload():\n                self.add_overload_const(ext.name)\n\n        return ext_report', 'C02.P6', 'unknown-kind-raises')
N('C02', 'gap refusal written with not/else', THEORY,
  '            if no_gaps:\n                raise CheckProofException("gaps are not allowed")\n            if rpt is not None:\n                rpt.add_gap(seq.th)\n            return None',
  '            if not no_gaps:\n                if rpt is not None:\n                    rpt.add_gap(seq.th)\n                return None\n            else:\n                raise CheckProofException("gaps are not allowed")')
N('C02', 'position guard through a local', THEORY,
  '                if prf.find_item(seq.id) is not seq:', '                placed = prf.find_item(seq.id)\n                if placed is not seq:')
N('C02', 'can_prove with <= on sets', THM,
  'set(self.hyps).issubset(set(target.hyps))', 'set(self.hyps) <= set(target.hyps)')

# ------------------------------------------------------------------------------------------- C03
B('C03', 'Term(t) keeps the identity token of t', TERM,
  '        # The identity token must be that of the new object, not of t\n        self._id = id(self)\n', '', 'C03.I1', 'bulk-copy-then-reset')
B('C03', 'Comb does not set its identity token', TERM,
  '        self.fun = fun\n        self.arg = arg\n        self._id = id(self)', '        self.fun = fun\n        self.arg = arg', 'C03.I1', 'Comb.__init__')
B('C03', 'hash includes the bound variable name', TERM,
  'self._hash_val = hash(("ABS", self.var_T, self.body))', 'self._hash_val = hash(("ABS", self.var_name, self.var_T, self.body))', 'C03.I2', '__hash__ :: fields(abs)')
B('C03', 'equality ignores the type of variables', TERM,
  '            return self.name == other.name and self.T == other.T\n        elif self.ty == Term.COMB:', '            return self.name == other.name\n        elif self.ty == Term.COMB:', 'C03.I2', '__eq__ :: fields(')
B('C03', 'equality compares bound variable names', TERM,
  'return self.var_T == other.var_T and self.body == other.body', 'return self.var_name == other.var_name and self.var_T == other.var_T and self.body == other.body', 'C03.I2', '__eq__ :: fields(abs)')
B('C03', 'type equality ignores constructor arguments', 'kernel/type.py',
  'return self.name == other.name and self.args == other.args', 'return self.name == other.name', 'C03.I2', 'Type.__eq__ :: fields(tconst)')
B('C03', 'subst_type_inplace keeps the memoised hash', TERM,
  '        if hasattr(self, "_hash_val"):\n            del self._hash_val\n        if self.is_svar() or self.is_var() or self.is_const():\n            self.T = self.T.subst(tyinst)',
  '        if self.is_svar() or self.is_var() or self.is_const():\n            self.T = self.T.subst(tyinst)', 'C03.I3', 'subst_type_inplace')
B('C03', 'a tactic rewrites a term type in place', 'logic/tactic.py',
  'class rule(Tactic):', 'def _retype(t, T):\n    t.T = T\n    return t\n\nclass rule(Tactic):', 'C03.I3', 'logic/tactic.py :: _retype')
B('C03', 'order ignores the type of variables', 'kernel/term_ord.py',
  'return compare_pair((t1.name, t1.T), (t2.name, t2.T), compare_atom, fast_compare_typ)', 'return compare_atom(t1.name, t2.name)', 'C03.I4', 'fast_compare :: fields(')
B('C03', 'order looks at bound variable names', 'kernel/term_ord.py',
  'return compare_pair((t1.var_T, t1.body), (t2.var_T, t2.body), fast_compare_typ, fast_compare)',
  'return compare_pair((t1.var_name, t1.body), (t2.var_name, t2.body), compare_atom, fast_compare)', 'C03.I4', 'fast_compare :: fields(abs)')
N('C03', 'hash of Bound through a local', TERM,
  'self._hash_val = hash(("BOUND", self.n))', 'h = hash(("BOUND", self.n))\n                self._hash_val = h')
N('C03', 'equality of abstractions with swapped conjuncts', TERM,
  'return self.var_T == other.var_T and self.body == other.body', 'return self.body == other.body and self.var_T == other.var_T')
N('C03', 'identity reset before the comment', TERM,
  '        # The identity token must be that of the new object, not of t\n        self._id = id(self)\n', '        self._id = id(self)  # own identity token\n')

# ------------------------------------------------------------------------------------------- C04 / C18
VM = 'smt/veriT/verit_macro.py'
B('C04', 'verit_not_or drops hypotheses', VM,
  '            if d == goal.arg:\n                return Thm(goal, pt0.hyps)', '            if d == goal.arg:\n                return Thm(goal)', 'C04.M1', 'verit_not_or')
B('C04', 'rewrite_goal drops hypotheses', 'logic/logic.py',
  '        _, goal = args\n        return Thm(goal, *(th.hyps for th in ths))', '        _, goal = args\n        _ = [th.prop for th in ths]\n        return Thm(goal)', 'C04.M1', 'rewrite_goal')
B('C04', 'a macro lowers its trust level at run time', 'logic/logic.py',
  '        # Simply produce the goal\n        _, goal = args', '        self.level = 0\n        _, goal = args', 'C04.M3', 'write(.level)')
B('C04', 'trust level is an expression', 'data/nat.py',
  "class nat_eval_macro(Macro):\n    \"\"\"Simplify all arithmetic operations.\"\"\"\n    def __init__(self):\n        self.level = 0  # No expand implemented",
  "class nat_eval_macro(Macro):\n    \"\"\"Simplify all arithmetic operations.\"\"\"\n    def __init__(self):\n        self.level = -1  # No expand implemented", 'C04.M3', 'nat_eval')
B('C04', 'inherited eval does not use the expansion', 'kernel/macro.py',
  '        return self.get_proof_term(args, pts).th', '        return Thm(args)', 'C04.M5', 'Macro.eval')
B('C04', 'verit_eq_congruent without length test', VM,
  '        if len(preds_eq) != len(concl_eq):\n            raise VeriTException("eq_congruent", "the number of arguments is not equal")\n', '', 'C04.M2', 'zip(preds_eq, concl_eq)')
N('C04', 'verit_not_or hypotheses through a local', VM,
  '            if d == goal.arg:\n                return Thm(goal, pt0.hyps)', '            if d == goal.arg:\n                hs = pt0.hyps\n                return Thm(goal, hs)')

B('C18', 'verit_not_and compares a prefix only', VM,
  '        if len(conj_atoms) != len(disj_atoms):\n            raise VeriTException("not_and", "unexpected goal: %s" % goal)\n', '', 'C18.R1', 'NotAndMacro.eval')
B('C18', 'verit_bind without length test', VM,
  '        if len(l_vars) != len(r_vars):\n            raise VeriTException("bind", "lhs and rhs should have the same number of quantifiers")\n', '', 'C18.R1', 'zip(l_vars, r_vars)')
B('C18', 'compare_ac without length test', VM,
  'if len(disjs1) == len(disjs2) and all(compare_ac(t1, t2) for t1, t2 in zip(disjs1, disjs2)):\n            return True\n        disjs1 = [flatten_prop(t) for t in disjs1]',
  'if all(compare_ac(t1, t2) for t1, t2 in zip(disjs1, disjs2)):\n            return True\n        disjs1 = [flatten_prop(t) for t in disjs1]', 'C18.R1', 'compare_ac :: zip(disjs1, disjs2)')
B('C18', 'verit_or_pos without whole-sequence test', VM,
  '        if tuple(disjs) == tuple(args[1:]):\n            return Thm(Or(*args))\n        else:\n            raise VeriTException("or_pos", "unexpected goal: %s" % Or(*args))',
  '        return Thm(Or(*args))', 'C18.R1', 'VeriTOrPos.eval')
B('C18', 'verit_not_implies1 drops hypotheses', VM,
  '        if goal != prop.arg.arg1:\n            raise VeriTException("not_implies1", "unexpected argument")\n        \n        return Thm(goal, prevs[0].hyps)',
  '        if goal != prop.arg.arg1:\n            raise VeriTException("not_implies1", "unexpected argument")\n        \n        return Thm(goal)', 'C18.R2', 'verit_not_implies1')
B('C18', 'verit_subproof drops all hypotheses', VM,
  'return Thm(Or(*args), tuple(hyp for hyp in prevs[-1].hyps if hyp not in input_prop))', 'return Thm(Or(*args))', 'C18.R2', 'verit_subproof')
B('C18', 'verit_implies_neg1 accepts without test', VM,
  '        if len(args) != 2 or not args[0].is_implies() or args[0].arg1 != args[1]:\n            raise VeriTException("implies_neg1", "unexpected arguments")\n        return Thm(Or(*args))',
  '        return Thm(Or(*args))', 'C18.R3', 'verit_implies_neg1')
N('C18', 'verit_not_and length test as assert', VM,
  '        if len(conj_atoms) != len(disj_atoms):\n            raise VeriTException("not_and", "unexpected goal: %s" % goal)\n',
  '        assert len(conj_atoms) == len(disj_atoms), "not_and: unexpected goal"\n')
N('C18', 'zip strict instead of length test', VM,
  '        if len(l_vars) != len(r_vars):\n            raise VeriTException("bind", "lhs and rhs should have the same number of quantifiers")\n\n        for lv, rv in zip(l_vars, r_vars):',
  '        for lv, rv in zip(l_vars, r_vars, strict=True):')

# ------------------------------------------------------------------------------------------- C05
B('C05', 'nat_eval without type guard', 'data/nat.py',
  '        assert goal.lhs.get_type() == NatType, "nat_eval_macro: goal must be an equality on natural numbers"\n', '', 'C05.T1', 'nat_eval')
B('C05', 'int_const_ineq pinned to the wrong type', 'data/integer.py',
  "            and goal.arg1.get_type() == IntType, repr(goal)", "            and goal.arg1.get_type() == NatType, repr(goal)", 'C05.T1', 'int_const_ineq')
B('C05', 'const_inequality evaluates nat comparisons as reals', 'integral/inequality.py',
  '                return eval_inequality_expr(goal, nat.nat_eval)', '                return eval_inequality_expr(goal)', 'C05.T1', 'const_inequality')
B('C05', 'real_norm without real test', 'data/real.py',
  '        if not (goal.is_equals() and goal.lhs.is_real()):\n            return False', '        if not goal.is_equals():\n            return False', 'C05.T1', 'real_norm')
B('C05', 'nat_eval without shape guard', 'data/nat.py',
  '        assert goal.is_equals(), "nat_eval_macro: goal must be an equality"\n', '', 'C05.T2', 'nat_eval')
B('C05', 'real_eval divides with floats', 'data/real.py',
  '                return Fraction(rec(t.arg1)) / denom\n        elif t.is_real_inverse():\n            denom = rec(t.arg)\n            if denom == 0:\n                raise ConvException(\'real_eval: divide by zero\')',
  '                return rec(t.arg1) / denom\n        elif t.is_real_inverse():\n            denom = rec(t.arg)\n            if denom == 0:\n                raise ConvException(\'real_eval: divide by zero\')',
  'C05.T3', 'real_eval')
B('C05', 'polynomial constants accept floats', 'util/poly.py',
  '    assert isinstance(c, (int, Fraction))\n', '', 'C05.T3', 'real_norm')
B('C05', 'real_eval divides without zero test', 'data/real.py',
  "            denom = rec(t.arg)\n            if denom == 0:\n                raise ConvException('real_eval: divide by zero')\n            elif denom == 1:\n                return rec(t.arg1)\n            else:\n                return Fraction(rec(t.arg1)) / denom",
  "            denom = rec(t.arg)\n            if denom == 1:\n                return rec(t.arg1)\n            else:\n                return Fraction(rec(t.arg1)) / denom", 'C05.T4', 'real_eval')
N('C05', 'nat_eval type guard with is_nat', 'data/nat.py',
  '        assert goal.lhs.get_type() == NatType, "nat_eval_macro: goal must be an equality on natural numbers"\n',
  '        assert goal.lhs.is_nat(), "nat_eval_macro: goal must be an equality on natural numbers"\n')
N('C05', 'real_compare guards as if/raise', 'data/real.py',
  '        assert goal.arg1.get_type() == RealType, "real_compare_macro: Should compare real numbers"\n',
  '        if goal.arg1.get_type() != RealType:\n            raise AssertionError("real_compare_macro: Should compare real numbers")\n')

# ------------------------------------------------------------------------------------------- C06
Z3W = 'prover/z3wrapper.py'
SYM = 'prover/sympywrapper.py'
B('C06', 'exists over nat unconstrained', Z3W,
  '            if t.arg.var_T == NatType:\n                # Quantifiers over natural numbers range over non-negative integers\n                body = z3.And(z3_v >= 0, body)\n', '', 'C06.Z1', 'exists :: nat-range')
B('C06', 'forall over nat restricted with And', Z3W,
  'body = z3.Implies(z3_v >= 0, body)', 'body = z3.And(z3_v >= 0, body)', 'C06.Z1', 'forall :: nat-range')
B('C06', 'nat subtraction not truncated', Z3W,
  '            if t.arg1.get_type() == NatType:\n                return z3.If(m >= n, m - n, 0, ctx)\n', '', 'C06.Z1', 'minus :: truncation')
B('C06', 'free nat variables unconstrained', Z3W,
  '            if t.T == NatType and t.name not in assms:\n                assms[t.name] = z3_t >= 0\n', '', 'C06.Z1', 'var :: nat-constraint')
B('C06', 'side constraints not asserted', Z3W,
  "    for nm, A in assms.items():\n        print_debug('A', A)\n        s.add(A)\n", '', 'C06.Z2', 'assms-asserted')
B('C06', 'conclusion asserted positively', Z3W, 's.add(z3.Not(z3_C))', 's.add(z3_C)', 'C06.Z3', 'solve_core')
B('C06', 'Z3 macro accepts without solving', Z3W,
  '            if check_z3:\n                assert solve(Implies(*(assms + [args]))), "Z3: not solved."\n', '            pass\n', 'C06.Z4', 'Z3Macro.eval')
B('C06', 'library code disables Z3 checking', 'prover/fologic.py',
  'def simplify(fm):', 'def _no_check():\n    from prover import z3wrapper\n    z3wrapper.check_z3 = False\n\ndef simplify(fm):', 'C06.Z4', 'write(check_z3)')
B('C06', 'solve accepts any verdict but sat', Z3W, "return str(s.check()) == 'unsat'", "return str(s.check()) != 'sat'", 'C06.Z4', 'solve :: verdict')
B('C06', 'SymPy disequality is structural', SYM,
  '        diff = sympy.simplify(lhs - rhs)\n        return not diff.free_symbols and diff.is_zero is False', '        return lhs != rhs', 'C06.S1', 'solve_goal')
B('C06', 'untranslatable goal accepted', SYM,
  '        try:\n            sympy_goal = convert(goal)\n        except SymPyException:\n            return False\n\n        return sympy_goal == True',
  '        try:\n            sympy_goal = convert(goal)\n        except SymPyException:\n            return True\n\n        return sympy_goal == True', 'C06.S2', 'solve_goal')
B('C06', 'SymPy divides by anything', SYM,
  '        if not (denom.is_number and denom.is_zero is False):\n            raise SymPyException("convert: divisor is not a non-zero constant: %s" % str(t))\n', '', 'C06.S3', 'is_divides')
N('C06', 'nat forall guard through a local', Z3W,
  'body = z3.Implies(z3_v >= 0, body)', 'nonneg = z3_v >= 0\n                body = z3.Implies(nonneg, body)' if False else 'body = z3.Implies(z3_v >= 0, body)  # v ranges over nat')
N('C06', 'Z3 macro with nested ifs merged', Z3W,
  '            if check_z3:\n                assert solve(Implies(*(assms + [args]))), "Z3: not solved."\n',
  '            if check_z3:\n                solved = solve(Implies(*(assms + [args])))\n                assert solved, "Z3: not solved."\n' if False else
  '            if not check_z3:\n                pass\n            else:\n                assert solve(Implies(*(assms + [args]))), "Z3: not solved."\n')

# ------------------------------------------------------------------------------------------- C07
OPF = 'syntax/operator.py'
B('C07', 'conjunction printed as left associative', OPF,
  'OperatorData("conj", 35, assoc=RIGHT, ascii_op="&", unicode_op="∧")', 'OperatorData("conj", 35, assoc=LEFT, ascii_op="&", unicode_op="∧")', 'C07.W1', 'op(conj)')
B('C07', 'times given the priority of plus', OPF,
  'OperatorData("times", 70, assoc=LEFT, ascii_op="*")', 'OperatorData("times", 65, assoc=LEFT, ascii_op="*")', 'C07.W1', 'op(times)')
B('C07', 'implication binds tighter than iff in the table', OPF,
  'OperatorData("implies", 20, assoc=RIGHT, ascii_op="-->", unicode_op="⟶")', 'OperatorData("implies", 27, assoc=RIGHT, ascii_op="-->", unicode_op="⟶")', 'C07.W1', 'op(iff)')
B('C07', 'printer omits brackets around equal-priority right operands', 'syntax/pprint.py',
  'if (op_data.assoc == operator.LEFT and get_priority(arg2) <= op_data.priority or', 'if (op_data.assoc == operator.LEFT and get_priority(arg2) < op_data.priority or', 'C07.W1', 'op(plus) :: right')
B('C07', 'function arguments never bracketed', 'syntax/pprint.py',
  '                if get_priority(t.arg) <= 95:\n                    arg_ast = Bracket(arg_ast)', '                if get_priority(t.arg) < 95:\n                    arg_ast = Bracket(arg_ast)', 'C07.W1', 'application :: arg')
B('C07', 'grammar: plus made right recursive', 'syntax/parser.py',
  '?plus_expr: plus_expr "+" inter  -> plus     // Addition: priority 65', '?plus_expr: inter "+" plus_expr  -> plus     // Addition: priority 65', 'C07.W1', 'op(plus)')
B('C07', 'unicode token of subset differs', OPF,
  'OperatorData("subset", 50, assoc=LEFT, ascii_op="Sub", unicode_op="⊆")', 'OperatorData("subset", 50, assoc=LEFT, ascii_op="Sub", unicode_op="⊂")', 'C07.W2', 'op(subset)')
B('C07', 'callback builds another constant', 'syntax/parser.py',
  '    def union(self, A, B):\n        return Const("union", None)(A, B)', '    def union(self, A, B):\n        return Const("inter", None)(A, B)', 'C07.W2', 'op(union)')
B('C07', 'memo key without the unicode flag', 'syntax/pprint.py',
  '    key = [t, settings.unicode]\n', '    key = [t]\n', 'C07.W3', 'setting(unicode)')
N('C07', 'operator rows reordered', OPF,
  '    OperatorData("plus", 65, assoc=LEFT, ascii_op="+"),\n    OperatorData("minus", 65, assoc=LEFT, ascii_op="-"),',
  '    OperatorData("minus", 65, assoc=LEFT, ascii_op="-"),\n    OperatorData("plus", 65, assoc=LEFT, ascii_op="+"),')
N('C07', 'bracket test with swapped disjuncts', 'syntax/pprint.py',
  '                if (op_data.assoc == operator.LEFT and get_priority(arg1) < op_data.priority or\n                    op_data.assoc == operator.RIGHT and get_priority(arg1) <= op_data.priority):',
  '                if (op_data.assoc == operator.RIGHT and get_priority(arg1) <= op_data.priority or\n                    op_data.assoc == operator.LEFT and get_priority(arg1) < op_data.priority):')

# ------------------------------------------------------------------------------------------- C08
INF = 'syntax/infertype.py'
B('C08', 'declared variable type overrides annotation', INF,
  '        elif t.is_var():\n            if t.T is None:\n                if t.name in context.ctxt.vars:',
  '        elif t.is_var():\n            if True:\n                if t.name in context.ctxt.vars:', 'C08.U1', 'store(t.T)')
B('C08', 'binder annotation overwritten', INF,
  '            if t.var_T is None:\n                t.var_T = new_type()', '            t.var_T = new_type()', 'C08.U1', 'store(t.var_T)')
B('C08', 'internal variables escape', INF,
  '    if forbid_internal and len(unspecified) > 0:\n        raise TypeInferenceException("Unspecified type\\n" + repr(t))\n', '', 'C08.U2', 'unspecified-raises')
B('C08', 'another caller allows internal variables', 'syntax/parser.py',
  '        th.prop = infertype.type_infer(th.prop)', '        th.prop = infertype.type_infer(th.prop, forbid_internal=False)', 'C08.U2', 'forbid_internal=False')
B('C08', 'printer does not restore cleared types', INF,
  '        find_to_replace(t)\n        recover_const_type(t)\n', '        find_to_replace(t)\n', 'C08.U2', 'restore-after-infer')
B('C08', 'fresh variable type not recorded', INF,
  '                    t.T = new_type()\n                    incr_ctxt[t.name] = t.T', '                    t.T = new_type()', 'C08.U3', 'is_var')
B('C08', 'constant keeps schematic type variables of its declaration', INF,
  '                for STv in T.get_stvars():\n                    tyinst[STv.name] = new_type()\n', '', 'C08.U4', 'const')
N('C08', 'annotation test with is not None / else', INF,
  '            if t.var_T is None:\n                t.var_T = new_type()', '            if t.var_T is not None:\n                pass\n            else:\n                t.var_T = new_type()')

# ------------------------------------------------------------------------------------------- C09
MAT = 'logic/matcher.py'
B('C09', 'first_order_match works on the caller\'s instantiation', MAT,
  '    if inst is None:\n        inst = Inst()\n    else:\n        inst = copy(inst)  # do not modify input\n', '    if inst is None:\n        inst = Inst()\n', 'C09.N1', 'first_order_match :: copy-on-entry')
B('C09', 'Inst copy shares the type instantiation', 'kernel/term.py',
  '        res.tyinst = copy(self.tyinst)', '        res.tyinst = self.tyinst', 'C09.N2', 'Inst.__copy__')
B('C09', 'Inst copy forgets variable instantiations', 'kernel/term.py',
  '        res.var_inst = copy(self.var_inst)\n', '', 'C09.N2', 'Inst.__copy__')
B('C09', 'matcher overwrites an existing binding', MAT,
  '                inst[pat.head.name] = t\n            else:\n                if inst[pat.head.name] != t:\n                    raise MatchException(trace)\n        elif pat.is_comb() and pat.head.is_svar():',
  '                inst[pat.head.name] = t\n            else:\n                inst[pat.head.name] = t\n        elif pat.is_comb() and pat.head.is_svar():', 'C09.N3', 'bind(pat.name)')
N('C09', 'copy on entry as conditional expression', MAT,
  '    if inst is None:\n        inst = Inst()\n    else:\n        inst = copy(inst)  # do not modify input\n', '    inst = Inst() if inst is None else copy(inst)\n')

# ------------------------------------------------------------------------------------------- C10
B('C10', 'nat_conv evaluates another term', 'data/nat.py',
  '        return Thm(Eq(t, Nat(nat_eval(t))))', '        return Thm(Eq(t.arg, Nat(nat_eval(t))))', 'C10.V1', 'nat_conv')
B('C10', 'add_conv invents a hypothesis', 'data/nat.py',
  'return Thm(Eq(t, Binary(t.arg1.dest_binary() + t.arg.dest_binary())))', 'return Thm(Eq(t, Binary(t.arg1.dest_binary() + t.arg.dest_binary())), t)', 'C10.V1', 'add_conv')
B('C10', 'rewr_conv does not test the left side', 'logic/conv.py',
  '        assert pt.th.prop.lhs == t, "rewr_conv: wrong result. Expected %s, got %s" % (str(t), str(pt.th.prop.lhs))\n', '', 'C10.V2', 'lhs-tested')
B('C10', 'Conv.eval ignores the proof term', 'logic/conv.py',
  '        return self.get_proof_term(t).th', '        return Thm(term.Eq(t, t))', 'C10.V1', 'Conv.eval')
B('C10', 'real_eval_conv states the equation about a subterm', 'data/real.py',
  "        return ProofTerm('real_eval', Eq(t, simp_t))", "        return ProofTerm('real_eval', Eq(simp_t, simp_t))", 'C10.V3', 'oracle(real_eval)')
N('C10', 'rewr_conv test as if/raise', 'logic/conv.py',
  '        assert pt.th.prop.lhs == t, "rewr_conv: wrong result. Expected %s, got %s" % (str(t), str(pt.th.prop.lhs))\n',
  '        if not (pt.th.prop.lhs == t):\n            raise AssertionError("rewr_conv: wrong result.")\n')

# ------------------------------------------------------------------------------------------- C11
ITEMS = 'server/items.py'
B('C11', 'definition head not checked', ITEMS,
  '            if f != Const(self.name, self.type):\n                raise ItemException("Definition %s: wrong head of lhs" % self.name)\n', '', 'C11.D1', 'D1b')
B('C11', 'definition arguments may be non-variables', ITEMS,
  '            if not all(v.is_var() for v in args):\n                raise ItemException("Definition %s: arguments on lhs must be variables" % self.name)\n', '', 'C11.D1', 'D1c')
B('C11', 'definition arguments may repeat', ITEMS,
  '            if len(set(v.name for v in args)) != len(args):\n                raise ItemException("Definition %s: variables on lhs must be distinct" % self.name)\n', '', 'C11.D1', 'D1d')
B('C11', 'definition may mention itself', ITEMS,
  'if any(c.name == self.name and not types_disjoint(c.T, self.type)\n                   for c in self.prop.rhs.get_consts()):',
  'if False and any(c.name == self.name and not types_disjoint(c.T, self.type)\n                   for c in self.prop.rhs.get_consts()):', 'C11.D1', 'D1g')
B('C11', 'type variable check only warns', ITEMS,
  '            if extra_tvars:\n                raise ItemException(\n                    "Definition %s: extra type variables in rhs: %s" % (\n                        self.name, ", ".join(str(T) for T in extra_tvars)))',
  '            if extra_tvars:\n                print("Definition %s: extra type variables in rhs" % self.name)', 'C11.D1', 'D1f')
B('C11', 'constant export forgets the type', ITEMS,
  "                'ty': 'def.ax',\n                'name': self.name,\n                'type': self.type if self.error else printer.print_type(self.type)\n            }",
  "                'ty': 'def.ax',\n                'name': self.name\n            }", 'C11.D2', 'Constant :: file :: required-keys-written')
B('C11', 'theorem export writes a key nobody reads', ITEMS,
  "        if self.num_gaps is not None:\n            res['num_gaps'] = self.num_gaps\n        return res\n\ndef get_term_tvars", "        if self.num_gaps is not None:\n            res['gaps'] = self.num_gaps\n        return res\n\ndef get_term_tvars", 'C11.D2', 'Theorem :: file :: written-keys-read')
B('C11', 'inductive rule names not exported', ITEMS,
  "                'rules': [{'name': rule['name'],\n                           'prop': rule['prop'] if self.error else export_term(rule['prop'])}",
  "                'rules': [{'prop': rule['prop'] if self.error else export_term(rule['prop'])}", 'C11.D2', 'Inductive :: file :: required-keys-written')
B('C11', 'header display drops depth', ITEMS,
  "            'ty': 'header',\n            'depth': self.depth,\n            'name': self.name\n        }\n\n    def parse_edit", "            'ty': 'header',\n            'name': self.name\n        }\n\n    def parse_edit", 'C11.D2', 'Header :: editor')
B('C11', 'item kind missing from item_table', ITEMS, "    'def.pred': Inductive,\n", '', 'C11.D3', 'Inductive')
N('C11', 'distinctness test as separate statements', ITEMS,
  '            if len(set(v.name for v in args)) != len(args):\n                raise ItemException("Definition %s: variables on lhs must be distinct" % self.name)\n',
  '            if not (len(set(v.name for v in args)) == len(args)):\n                raise ItemException("Definition %s: variables on lhs must be distinct" % self.name)\n')

# ------------------------------------------------------------------------------------------- C12
BASIC = 'logic/basic.py'
B('C12', 'theory not restored after lazy imports', BASIC,
  '    finally:\n        theory.thy = prev_thy\n', '    finally:\n        pass\n', 'C12.L1', 'import(data.real)')
B('C12', 'new lazy import of a theory-loading module', BASIC,
  "    # Load all imported theories\n    depend_list = get_import_order(cache['imports'], username)\n\n    with theory.fresh_theory():",
  "    # Load all imported theories\n    depend_list = get_import_order(cache['imports'], username)\n    if filename == 'int':\n        from data import integer\n\n    with theory.fresh_theory():", 'C12.L1', 'import(data.integer)')
B('C12', 'marker written before parsing', BASIC,
  "        # Use this theory to parse the content of current theory\n        content = []",
  "        # Use this theory to parse the content of current theory\n        cache['timestamp'] = timestamp\n        content = []", 'C12.L2', 'marker-last')
B('C12', 'username not forwarded to the cycle check', BASIC,
  '    # Immediately check for topological order.\n    check_topological_sort(username)', '    # Immediately check for topological order.\n    check_topological_sort()', 'C12.L3', 'load_metadata')
B('C12', 'username not forwarded when loading imports', BASIC,
  '            prev_cache = load_theory_cache(prev_name, username)\n            for item in prev_cache[\'content\']:\n                if item.error is None:\n                    theory.thy.unchecked_extend(item.get_extension())\n\n        # Use this theory',
  '            prev_cache = load_theory_cache(prev_name)\n            for item in prev_cache[\'content\']:\n                if item.error is None:\n                    theory.thy.unchecked_extend(item.get_extension())\n\n        # Use this theory', 'C12.L3', 'load_theory_cache')
B('C12', 'missing limit not reported', BASIC,
  '    if limit and not found_limit:\n        raise TheoryException("load_theory: limit %s not found" % str(limit))\n', '', 'C12.L4', 'missing-limit-raises')
B('C12', 'import cycle not reported', BASIC,
  "            raise TheoryException(\"Cycle in imports: %s\" % (', '.join(cycle)))", "            return", 'C12.L4', 'cycle-raises')
B('C12', 'a prover module replaces the global theory', 'prover/fologic.py',
  'def simplify(fm):', 'def _reset():\n    from kernel import theory\n    theory.thy = theory.EmptyTheory()\n\ndef simplify(fm):', 'C12.L5', 'prover/fologic.py')
N('C12', 'restore written with a different local name', BASIC,
  '    prev_thy = theory.thy\n    try:\n        if filename == \'logic\':', '    saved = theory.thy\n    try:\n        if filename == \'logic\':' if False else '    prev_thy = theory.thy  # saved\n    try:\n        if filename == \'logic\':')

# ------------------------------------------------------------------------------------------- C13
METH = 'server/method.py'
B('C13', 'state copy shares the proof', METH, '        res.prf = copy.copy(self.prf)', '        res.prf = self.prf', 'C13.A1', 'ProofState.__copy__ :: field(prf)')
B('C13', 'proof copy shares its items', 'kernel/proof.py', '        res.items = [copy.copy(item) for item in self.items]', '        res.items = list(self.items)', 'C13.A1', 'Proof.__copy__ :: field(items)')
B('C13', 'item copy shares the subproof', 'kernel/proof.py', '            res.subproof = copy.copy(self.subproof)', '            res.subproof = self.subproof', 'C13.A1', 'ProofItem.__copy__ :: field(subproof)')
B('C13', 'insert_step edits the stored snapshot', 'app/ide.py', '        state = copy.copy(self.states[index])', '        state = self.states[index]', 'C13.A2', 'insert_step')
B('C13', 'live state stored as snapshot', 'app/ide.py',
  '            self.history.extend(state.parse_steps([step]))\n            self.states.append(copy.copy(state))\n\n        try:', '            self.history.extend(state.parse_steps([step]))\n            self.states.append(state)\n\n        try:', 'C13.A2', 'snapshot-stored')
B('C13', 'citations not renumbered', 'kernel/proof.py',
  '        self.prevs = [id.incr_id_after(start, n) for id in self.prevs]\n', '', 'C13.A3', 'incr_proof_item :: rewrites(prevs)')
B('C13', 'nested steps not renumbered on removal', 'kernel/proof.py',
  '        if self.subproof:\n            for subitem in self.subproof.items:\n                subitem.decr_proof_item(id_remove)', '        pass', 'C13.A3', 'decr_proof_item :: rewrites(subproof)')
B('C13', 'only the next line is renumbered', METH,
  '        for item in prf.items[split+n:]:\n            item.incr_proof_item(id, n)', '        for item in prf.items[split+n:split+n+1]:\n            item.incr_proof_item(id, n)', 'C13.A3', 'add_line_before')
B('C13', 'set_line does not re-check', METH,
  '        prf.items[id.last()] = ProofItem(id, rule, args=args, prevs=prevs, th=th)\n        self.check_proof(compute_only=True)', '        prf.items[id.last()] = ProofItem(id, rule, args=args, prevs=prevs, th=th)', 'C13.A3', 'set_line :: recheck')
B('C13', 'exported step lacks prevs', 'syntax/printer.py',
  "           'args': str_args, 'prevs': [str(prev) for prev in item.prevs]}", "           'args': str_args}", 'C13.A4', 'keys')
B('C13', 'induction arguments cannot be parsed back', 'syntax/parser.py',
  '        elif sig == Tuple[str, Term, Term]:\n            s1, s2 = args.split(",", 1)\n            t1, t2 = parse_term_list(s2)\n            return s1, t1, t2\n', '', 'C13.A5', 'Tuple[str, Term, Term]')
N('C13', 'state copy with list()', METH, '        res.vars = copy.copy(self.vars)', '        res.vars = list(self.vars)')

# ------------------------------------------------------------------------------------------- C14
B('C14', 'apply reads a key no suggestion has', METH,
  "        state.apply_tactic(id, tactic.rewrite_goal_with_prev(), prevs=prevs)", "        state.apply_tactic(id, tactic.rewrite_goal_with_prev(), args=args['theorem'], prevs=prevs)", 'C14.S1', 'rewrite_goal_with_prev')
B('C14', 'search previews with another tactic', METH,
  "            pt = tactic.rewrite_goal_with_prev().get_proof_term(cur_item.th, args=None, prevs=prevs)", "            pt = tactic.apply_prev().get_proof_term(cur_item.th, args=None, prevs=prevs)", 'C14.S2', 'rewrite_goal_with_prev')
B('C14', 'direction flag decoded differently', METH,
  "                sym_b = True if sym == 'true' else False\n                pt = tactic.rewrite_goal(sym=sym_b)", "                sym_b = True if sym == 'yes' else False\n                pt = tactic.rewrite_goal(sym=sym_b)", 'C14.S2', 'rewrite_goal')
B('C14', 'display needs a key some suggestions lack', METH,
  '        return pprint.N(data[\'theorem\'] + " (f)")', '        return pprint.N(data[\'theorem\'] + " (f)" + str(data[\'_fact\']))', 'C14.S3', 'apply_forward_step')
N('C14', 'optional key read with get', METH,
  "        if 'sym' in data and data['sym'] == 'true':\n            sym_b = True\n        else:\n            sym_b = False\n        state.apply_tactic(id, tactic.rewrite_goal(sym=sym_b), args=data['theorem'], prevs=prevs)",
  "        sym_b = ('sym' in data and data['sym'] == 'true')\n        state.apply_tactic(id, tactic.rewrite_goal(sym=sym_b), args=data['theorem'], prevs=prevs)")

# ------------------------------------------------------------------------------------------- C19
B('C19', 'power printed with the priority of times', 'integral/expr.py', '"*": 70, "/": 70, "^": 75,', '"*": 70, "/": 70, "^": 70,', 'C19.E1', 'order(')
B('C19', 'grammar nests minus to the right', 'integral/parser.py',
  '| plus "-" times -> minus_expr | times', '| times "-" plus -> minus_expr | times', 'C19.E1', 'recursion(-)')
B('C19', 'right operand of equal priority not bracketed', 'integral/expr.py',
  '            if b.priority() <= op_priority[self.op]:\n                s2 = "(%s)" % s2', '            if b.priority() < op_priority[self.op]:\n                s2 = "(%s)" % s2', 'C19.E2', 'right-operand')
N('C19', 'priority table reordered', 'integral/expr.py', '"+": 65, "-": 65, "*": 70, "/": 70,', '"*": 70, "/": 70, "+": 65, "-": 65,')

# ------------------------------------------------------------------------------------------- rules added after the first seeded round
B('C01', 'substitution instantiates term by term', THM,
  '            for t in th.hyps + (th.prop,):\n                for v in t.get_svars():\n                    if v.name in inst:\n                        v.T.match_incr(inst[v.name].get_type(), inst.tyinst)\n',
  '', 'C01.K8', 'one-type-instantiation')
B('C01', 'subst_bound memo without binder depth', TERM,
  '            if (id_s, n) in cache:\n                return cache[(id_s, n)]', '            if id_s in cache:\n                return cache[id_s]', 'C01.K9', 'subst_bound')
B('C03', 'subst_bound memo stores without binder depth', TERM,
  '                    res = Comb(fun_s, arg_s)\n                cache[(id_s, n)] = res', '                    res = Comb(fun_s, arg_s)\n                cache[id_s] = res', 'C03.I5', 'subst_bound')
N('C03', 'subst memo key through a local', TERM,
  '            elif t._id in cache:\n                return cache[t._id]', '            elif t._id in cache:\n                key = t._id\n                return cache[key]')
B('C02', 'negative identifiers resolved from the end', 'kernel/proof.py',
  '        if any(i < 0 for i in id.id):\n            # A negative number would index from the end of the proof\n            raise ProofStateException\n', '', 'C02.P8', 'find_item')
B('C02', 'empty line may state a theorem', THEORY,
  '            if seq.th is not None:\n                raise CheckProofException("empty line cannot state a theorem")\n', '', 'C02.P9', 'empty-rule')
N('C02', 'negative identifier test with all()', 'kernel/proof.py',
  '        if any(i < 0 for i in id.id):', '        if not all(i >= 0 for i in id.id):')
B('C04', 'apply_theorem evaluation always normalises', 'logic/logic.py',
  '        if matcher.is_fo_pattern(th.prop):\n            As, C = th.prop.subst(inst).strip_implies()\n        else:\n            As, C = th.prop.subst_norm(inst).strip_implies()',
  '        As, C = th.prop.subst_norm(inst).strip_implies()', 'C04.M6', 'apply_theorem')
N('C04', 'apply_theorem evaluation with negated test', 'logic/logic.py',
  '        if matcher.is_fo_pattern(th.prop):\n            As, C = th.prop.subst(inst).strip_implies()\n        else:\n            As, C = th.prop.subst_norm(inst).strip_implies()',
  '        if not matcher.is_fo_pattern(th.prop):\n            As, C = th.prop.subst_norm(inst).strip_implies()\n        else:\n            As, C = th.prop.subst(inst).strip_implies()')
B('C05', 'real_eval evaluates under of_nat with real arithmetic', 'data/real.py',
  "        elif t.is_comb('of_nat', 1):\n            return nat.nat_eval(t.arg)\n        elif t.is_comb('of_int', 1):\n            return integer.int_eval(t.arg)\n        elif t.is_plus():\n            return rec(t.arg1) + rec(t.arg)\n        elif t.is_minus():\n            return rec(t.arg1) - rec(t.arg)\n        elif t.is_uminus():\n            return -rec(t.arg)\n        elif t.is_times():\n            return rec(t.arg1) * rec(t.arg)\n        elif t.is_divides():\n            denom = rec(t.arg)\n            if denom == 0:\n                raise ConvException('real_eval: divide by zero')",
  "        elif t.is_comb('of_nat', 1):\n            return rec(t.arg)\n        elif t.is_comb('of_int', 1):\n            return integer.int_eval(t.arg)\n        elif t.is_plus():\n            return rec(t.arg1) + rec(t.arg)\n        elif t.is_minus():\n            return rec(t.arg1) - rec(t.arg)\n        elif t.is_uminus():\n            return -rec(t.arg)\n        elif t.is_times():\n            return rec(t.arg1) * rec(t.arg)\n        elif t.is_divides():\n            denom = rec(t.arg)\n            if denom == 0:\n                raise ConvException('real_eval: divide by zero')",
  'C05.T5', 'real_eval')
B('C05', 'strict comparison decided with <=', 'data/real.py',
  '        if goal.is_less():\n            assert lhs < rhs, "%f !< %f" % (lhs, rhs)', '        if goal.is_less():\n            assert lhs <= rhs, "%f !< %f" % (lhs, rhs)', 'C05.T6', 'RealCompareMacro.eval :: is_less')
B('C05', 'disequality decided with ==', 'integral/inequality.py',
  '        return ev(t.arg.arg1) != ev(t.arg.arg)', '        return ev(t.arg.arg1) == ev(t.arg.arg)', 'C05.T6', 'is_equals(t.arg)')
B('C06', 'of_nat alias used for bound variables', Z3W,
  '                if t.arg.is_var() and t.arg.name not in bound_names:', '                if t.arg.is_var():', 'C06.Z1', 'alias-only-for-free-variables')
B('C06', 'exists branch does not register its variable', Z3W,
  '            bound_names.add(nm)\n            v = Var(nm, t.arg.var_T)\n            z3_v = convert_const(nm, t.arg.var_T, ctx)\n            body = rec(t.arg.subst_bound(v))\n            if t.arg.var_T == NatType:\n                # Quantifiers over natural numbers range over non-negative integers\n                body = z3.And(z3_v >= 0, body)',
  '            v = Var(nm, t.arg.var_T)\n            z3_v = convert_const(nm, t.arg.var_T, ctx)\n            body = rec(t.arg.subst_bound(v))\n            if t.arg.var_T == NatType:\n                # Quantifiers over natural numbers range over non-negative integers\n                body = z3.And(z3_v >= 0, body)',
  'C06.Z1', 'alias-only-for-free-variables')
B('C07', 'comprehension variable name not registered', 'syntax/pprint.py',
  '            nm = name.get_variant_name(t.arg.var_name, var_names)\n            var_names.append(nm)\n\n            bind_var = Bound(nm, t.arg.var_T)\n            body_ast = helper(t.arg.body, [bind_var] + bd_vars)\n            var_names.remove(nm)\n\n            if hasattr(t.arg, "print_type"):\n                bind_var = ShowType(bind_var, get_ast_type(bind_var.T))\n\n            return Collect',
  '            nm = name.get_variant_name(t.arg.var_name, var_names)\n\n            bind_var = Bound(nm, t.arg.var_T)\n            body_ast = helper(t.arg.body, [bind_var] + bd_vars)\n\n            if hasattr(t.arg, "print_type"):\n                bind_var = ShowType(bind_var, get_ast_type(bind_var.T))\n\n            return Collect',
  'C07.W4', 'binder-name')
B('C08', 'unify identifies variables of different kinds', INF,
  '        elif T1.is_tvar() and T2.is_tvar() and T1.name == T2.name:\n            return\n\n        elif T1.is_stvar() and T2.is_stvar() and T1.name == T2.name:\n            return',
  '        elif not T1.is_tconst() and not T2.is_tconst() and T1.name == T2.name:\n            return', 'C08.U5', 'noop-success')
N('C08', 'unify same-kind shortcuts merged correctly', INF,
  '        elif T1.is_tvar() and T2.is_tvar() and T1.name == T2.name:\n            return\n\n        elif T1.is_stvar() and T2.is_stvar() and T1.name == T2.name:\n            return',
  '        elif (T1.is_tvar() and T2.is_tvar() or T1.is_stvar() and T2.is_stvar()) and T1.name == T2.name:\n            return')

# ------------------------------------------------------------------------------------------- rules added after the second seeded round
B('C09', 'eta-contraction tests top-level arguments only', 'logic/matcher.py',
  'if inst_t.is_comb() and inst_t.arg == v and v not in inst_t.fun.get_vars():', 'if inst_t.is_comb() and inst_t.arg == v and v not in inst_t.fun.args:', 'C09.N4', 'eta-contraction')
N('C09', 'eta-contraction freeness through occurs_var', 'logic/matcher.py',
  'if inst_t.is_comb() and inst_t.arg == v and v not in inst_t.fun.get_vars():', 'if inst_t.is_comb() and inst_t.arg == v and not inst_t.fun.occurs_var(v):')
B('C10', 'normaliser memo stores results obtained under conditions', 'logic/auto.py',
  '    if not pts:\n        norm_record[t] = res_pt\n    return res_pt', '    norm_record[t] = res_pt\n    return res_pt', 'C10.V4', 'memo(norm_record)')
N('C10', 'solver memo also consulted when conditions are supplied (a condition-free proof is still valid)', 'logic/auto.py',
  '    if not pts and goal in solve_record:', '    if goal in solve_record:')
B('C11', 'disjointness fast path for ground types', 'server/items.py',
  '    if T1.is_tconst() and T2.is_tconst():\n        if T1.name != T2.name or len(T1.args) != len(T2.args):',
  '    if not T1.get_tvars():\n        return T1 != T2\n    if T1.is_tconst() and T2.is_tconst():\n        if T1.name != T2.name or len(T1.args) != len(T2.args):', 'C11.D4', 'types_disjoint')
B('C12', 'imported theories taken from the cache without revalidation', 'logic/basic.py',
  "    theory.thy = theory.EmptyTheory()\n    for prev_name in depend_list:\n        prev_cache = load_theory_cache(prev_name, username)",
  "    theory.thy = theory.EmptyTheory()\n    for prev_name in depend_list:\n        prev_cache = theory_cache[username][prev_name]", 'C12.L6', 'load_theory')
B('C12', 'imports not refreshed when a file is re-read', 'logic/basic.py',
  "    if cache['imports'] != data['imports']:\n        cache['imports'] = data['imports']\n        check_topological_sort(username)\n", '', 'C12.L7', 'imports-refreshed')
B('C13', 'intros arguments updated in place', 'server/method.py',
  "                        item.args = [exists_prop] + item.args", "                        item.args.insert(0, exists_prop)", 'C13.A6', 'exists_elim')
B('C18', 'integer rounding through float division', 'smt/veriT/la_generic.py',
  "                if c > 0 and c % k != 0:\n                    t = k * (c // k + 1)", "                if c > 0 and c % k != 0:\n                    t = k * (int(c / k) + 1)", 'C18.R4', 'LAGenericMacro.eval')
B('C19', 'sign of a constant tested before the fraction test', 'integral/expr.py',
  "            if isinstance(self.val, Fraction) and self.val.denominator != 1:\n                return op_priority['/']\n            elif self.val < 0:\n                # return 80  # priority of uminus\n                return 74",
  "            if self.val < 0:\n                # return 80  # priority of uminus\n                return 74\n            elif isinstance(self.val, Fraction) and self.val.denominator != 1:\n                return op_priority['/']", 'C19.E3', 'fraction-constant')
B('C10', 'monomial comparison stops after the first factor', 'util/poly.py',
  "                return compare_fst(p1[0][i], p2[0][i])\n        return 0", "                return compare_fst(p1[0][i], p2[0][i])\n            return 0", 'C10.V5', 'compare_fst')
B('C18', 'ite_intro ignores the first conjunct', 'smt/veriT/verit_macro.py',
  "        rhs_conjs = rhs.strip_conj()\n        if rhs_conjs[0] != lhs and not compare_sym_tm(rhs_conjs[0], lhs):\n            raise VeriTException(\"ite_intro\", \"unexpected goal\")\n        expected_ites = rhs_conjs[1:]",
  "        expected_ites = rhs.strip_conj()[1:]", 'C18.R5', 'verit_ite_intro')
B('C18', 'let drops hypotheses without consulting the premises', 'smt/veriT/verit_macro.py',
  "                if hyp.rhs != t and (t, hyp.rhs) not in ctx:\n                    raise VeriTException(\"let\", \"hypothesis %s is not justified\" % hyp)\n", "                pass\n", 'C18.R6', 'verit_let')

# ------------------------------------------------------------------------------------------- rules added after the second round of seeded changes
B('C03', 'equality answers from cached hashes', TERM,
  "        if self.ty != other.ty:\n            return False\n        elif self.ty == Term.SVAR or self.ty == Term.VAR or self.ty == Term.CONST:\n            return self.name == other.name and self.T == other.T",
  "        if self.ty != other.ty:\n            return False\n        if getattr(self, '_hash_val', None) != getattr(other, '_hash_val', None):\n            return False\n        if self.ty == Term.SVAR or self.ty == Term.VAR or self.ty == Term.CONST:\n            return self.name == other.name and self.T == other.T",
  'C03.I2', 'reads-structure-only')
N('C03', 'identity shortcut written with `is`', TERM,
  "        if self._id == other._id:\n            return True\n\n        if self.ty != other.ty:", "        if self is other or self._id == other._id:\n            return True\n\n        if self.ty != other.ty:")
B('C04', 'normaliser memo written whenever the result has no hypotheses', 'logic/auto.py',
  '    if not pts:\n        norm_record[t] = res_pt\n    return res_pt', '    if not res_pt.hyps:\n        norm_record[t] = res_pt\n    return res_pt', 'C04.M7', 'memo(norm_record)')
B('C05', 'quotient of equal normal forms cancels', 'data/real.py',
  "        if p_denom.is_nonzero_constant():\n            return convert_to_poly(num).scale(Fraction(1, p_denom.get_constant()))\n        else:\n            return poly.singleton(t)",
  "        if p_denom.is_nonzero_constant():\n            return convert_to_poly(num).scale(Fraction(1, p_denom.get_constant()))\n        elif convert_to_poly(num) == p_denom and not p_denom.is_zero_constant():\n            return poly.constant(1)\n        else:\n            return poly.singleton(t)",
  'C05.T7', 'convert_to_poly :: divides-branch')
B('C05', 'inverse evaluated without zero test', 'data/real.py',
  "            denom = rec(t.arg)\n            if denom == 0:\n                raise ConvException('real_eval: divide by zero')\n            else:\n                return Fraction(1) / denom",
  "            denom = rec(t.arg)\n            return Fraction(1) / denom if denom else Fraction(0)", 'C05.T7', 'real_eval.<locals>.rec :: real_inverse-branch')
N('C05', 'quotient branch with the opaque case first', 'data/real.py',
  "        if p_denom.is_nonzero_constant():\n            return convert_to_poly(num).scale(Fraction(1, p_denom.get_constant()))\n        else:\n            return poly.singleton(t)",
  "        if not p_denom.is_nonzero_constant():\n            return poly.singleton(t)\n        return convert_to_poly(num).scale(Fraction(1, p_denom.get_constant()))")
B('C06', 'forall records the original binder name as bound', 'prover/z3wrapper.py',
  "        elif t.is_forall():\n            nm = name.get_variant_name(t.arg.var_name, var_names)\n            var_names.append(nm)\n            bound_names.add(nm)",
  "        elif t.is_forall():\n            nm = name.get_variant_name(t.arg.var_name, var_names)\n            var_names.append(nm)\n            bound_names.add(t.arg.var_name)",
  'C06.Z1', 'alias-only-for-free-variables')
B('C07', 'print_ast keeps the list it returns on the AST node', 'syntax/pprint.py',
  "    if not settings.line_length:\n        res = res[0]\n\n    return res", "    if not settings.line_length:\n        res = res[0]\n\n    ast.printed = res\n    return res", 'C07.W5', 'print_ast')
N('C07', 'commas_join copies its first item', 'syntax/printer.py',
  "            res = strs[0]\n            for s in strs[1:]:", "            res = list(strs[0])\n            for s in strs[1:]:")
B('C08', 'signature memo in the class body of Theory', THEORY,
  "        if stvar:\n            return data[name].convert_stvar()\n        else:\n            return data[name]",
  "        if stvar:\n            if name not in self.sig_memo:\n                self.sig_memo[name] = data[name].convert_stvar()\n            return self.sig_memo[name]\n        else:\n            return data[name]",
  'C08.U6', 'Theory :: per-object-tables', more=[("    def __init__(self):\n        self.data = dict()\n", "    sig_memo = dict()\n\n    def __init__(self):\n        self.data = dict()\n")])
N('C08', 'signature memo created per object', THEORY,
  "        if stvar:\n            return data[name].convert_stvar()\n        else:\n            return data[name]",
  "        if stvar:\n            if name not in self.sig_memo:\n                self.sig_memo[name] = data[name].convert_stvar()\n            return self.sig_memo[name]\n        else:\n            return data[name]",
  more=[("    def __init__(self):\n        self.data = dict()\n", "    def __init__(self):\n        self.data = dict()\n        self.sig_memo = dict()\n")])
B('C09', 'rigid type variable matches anything but another variable', 'kernel/type.py',
  "        elif self.is_tvar():\n            if self != T:\n                raise TypeMatchException('Unable to match %s with %s' % (self, T))",
  "        elif self.is_tvar():\n            if T.is_tvar() and T.name != self.name:\n                raise TypeMatchException('Unable to match %s with %s' % (self, T))", 'C09.N5', 'tvar :: equal-to-target')
B('C09', 'constructor arguments not matched', 'kernel/type.py',
  "                for arg, argT in zip(self.args, T.args):\n                    arg.match_incr(argT, tyinst)", "                pass", 'C09.N5', 'arguments-matched')
N('C09', 'rigid type variable test written positively', 'kernel/type.py',
  "        elif self.is_tvar():\n            if self != T:\n                raise TypeMatchException('Unable to match %s with %s' % (self, T))",
  "        elif self.is_tvar():\n            if self == T:\n                return\n            raise TypeMatchException('Unable to match %s with %s' % (self, T))")
B('C09', 'bare schematic variable bound without matching its type', 'logic/matcher.py',
  "                try:\n                    pat.T.match_incr(t.get_type(), inst.tyinst)\n                except TypeMatchException:\n                    raise MatchException(trace)\n                inst[pat.head.name] = t",
  "                inst[pat.head.name] = t", 'C09.N6', 'typed-bind(pat.head.name)@t')
B('C10', 'dest_atom merged with wrong precedence', 'data/real.py',
  "    elif t.is_nat_power() and t.arg.is_number():\n        return t.arg1\n    elif t.is_real_power() and t.arg.is_number():\n        return t.arg1\n    else:\n        return t",
  "    elif t.is_nat_power() or t.is_real_power() and t.arg.is_number():\n        return t.arg1\n    else:\n        return t", 'C10.V6', 'exponent-form-agreement')
N('C10', 'dest_atom merged correctly', 'data/real.py',
  "    elif t.is_nat_power() and t.arg.is_number():\n        return t.arg1\n    elif t.is_real_power() and t.arg.is_number():\n        return t.arg1\n    else:\n        return t",
  "    elif (t.is_nat_power() or t.is_real_power()) and t.arg.is_number():\n        return t.arg1\n    else:\n        return t")
B('C11', 'overload instance needs only one concrete component', THEORY,
  "            for _, v in sorted(inst.items()):\n                if not v.is_tconst():\n                    raise TheoryException(\"When overloading %s with %s: cannot instantiate to type variables\" % (aT, T))",
  "            if not [v for _, v in sorted(inst.items()) if v.is_tconst()]:\n                raise TheoryException(\"When overloading %s with %s: cannot instantiate to type variables\" % (aT, T))",
  'C11.D5', 'every-type-variable-concrete')
N('C11', 'overload instance guard written with all()', THEORY,
  "            for _, v in sorted(inst.items()):\n                if not v.is_tconst():\n                    raise TheoryException(\"When overloading %s with %s: cannot instantiate to type variables\" % (aT, T))",
  "            if not all(v.is_tconst() for v in inst.values()):\n                raise TheoryException(\"When overloading %s with %s: cannot instantiate to type variables\" % (aT, T))")
B('C12', 'theorem cache table shared by all theories', THEORY,
  '    thy.add_data_type("theorems_svar")', '    thy.add_data_type("theorems_svar", theorems_svar)', 'C12.L8', "add_data_type('theorems_svar')",
  more=[("def EmptyTheory():", "theorems_svar = dict()\n\ndef EmptyTheory():")])
N('C12', 'theorem cache table passed explicitly as a fresh dict', THEORY,
  '    thy.add_data_type("theorems_svar")', '    thy.add_data_type("theorems_svar", dict())')
B('C13', 'replace_id rewrites one level only', 'server/method.py',
  "        def replace(prf: Proof):\n            for item in prf.items:\n                item.prevs = [new_id if id == old_id else id for id in item.prevs]\n                if item.subproof:\n                    replace(item.subproof)\n",
  "        def replace(prf: Proof):\n            for item in prf.items:\n                item.prevs = [new_id if id == old_id else id for id in item.prevs]\n", 'C13.A7', 'citation-rewrite')
B('C14', 'fact ids recorded in selection order', 'server/method.py',
  "                        r['fact_ids'] = list(str(id) for id in perm_prevs)", "                        r['fact_ids'] = list(str(id) for id in prevs)", 'C14.S4', 'fact_ids-from-search-argument')
N('C14', 'fact ids computed once per permutation', 'server/method.py',
  "                res = cur_method.search(self, id, perm_prevs)\n                for r in res:", "                res = cur_method.search(self, id, perm_prevs)\n                perm_ids = [str(p) for p in perm_prevs]\n                for r in res:",
  more=[("                        r['fact_ids'] = list(str(id) for id in perm_prevs)", "                        r['fact_ids'] = list(perm_ids)")])
B('C18', 'comparison cache as a default argument', 'smt/veriT/verit_macro.py',
  "def compare_sym_tm(tm1, tm2, *, ctx=None, depth=-1):", "def compare_sym_tm(tm1, tm2, *, ctx=None, depth=-1, cache=set()):", 'C18.R7', 'compare_sym_tm',
  more=[("    if ctx is None:\n        ctx = set()\n    cache = set()\n    def helper(t1, t2, depth):", "    if ctx is None:\n        ctx = set()\n    def helper(t1, t2, depth):")])
B('C19', 'last side condition decides', 'integral/rules.py',
  "                    cond = cond.inst_pat(inst)\n                    if not ctx.get_conds().check_condition(cond):\n                        satisfied = False\n                if satisfied:\n                    return normalize(identity.rhs.inst_pat(inst), ctx.get_conds())",
  "                    cond = cond.inst_pat(inst)\n                    satisfied = ctx.get_conds().check_condition(cond)\n                if satisfied:\n                    return normalize(identity.rhs.inst_pat(inst), ctx.get_conds())", 'C19.E4', 'DefiniteIntegralIdentity.eval')
N('C19', 'side conditions accumulated with and', 'integral/rules.py',
  "                    cond = cond.inst_pat(inst)\n                    if not ctx.get_conds().check_condition(cond):\n                        satisfied = False\n                if satisfied:\n                    return normalize(identity.rhs.inst_pat(inst), ctx.get_conds())",
  "                    cond = cond.inst_pat(inst)\n                    satisfied = satisfied and ctx.get_conds().check_condition(cond)\n                if satisfied:\n                    return normalize(identity.rhs.inst_pat(inst), ctx.get_conds())")
B('C04', 'expansion step computed and dropped', 'smt/veriT/verit_macro.py',
  "                eq_pt = eq_pt.on_rhs(rewr_conv('disj_swap_eq'))\n        return eq_pt.equal_elim(prev)",
  "                eq_pt.on_rhs(rewr_conv('disj_swap_eq'))\n        return eq_pt.equal_elim(prev)", 'C04.M8', 'smt/veriT/verit_macro.py :: results-used')
N('C04', 'combinator called for its exception inside try', THEORY,
  "            try:\n                self.get_term_sig(t.name, stvar=True).match(t.T)\n            except TypeMatchException:",
  "            try:\n                self.get_term_sig(t.name, stvar=True).match_incr(t.T, TyInst())\n            except TypeMatchException:")
B('C18', 'and_neg forgets the component its walk stops at', 'smt/veriT/verit_macro.py',
  "            conj = conj.arg\n        else:\n            # the walk ended at the last conjunct (or args[0] is not a conjunction at all)\n            expected_conj.append(Not(conj))\n",
  "            conj = conj.arg\n", 'C18.R8', 'AndNegMacro.eval')
# C18.R9: a premise or literal is taken apart only after its head connective was tested
B('C18', 'implies without the connective test', 'smt/veriT/verit_macro.py',
  "        if not pt.prop.is_implies():\n            raise VeriTException(\"implies\", \"premise should be an implication\")\n", "", 'C18.R9', 'verit_implies')
B('C18', 'not_and without the negation test', 'smt/veriT/verit_macro.py',
  "        if not pt0.prop.is_not():\n            raise VeriTException(\"not_and\", \"premise should be a negation\")\n", "", 'C18.R9', 'verit_not_and')
B('C18', 'equiv_pos1 tests the negation but not the equivalence', 'smt/veriT/verit_macro.py',
  "        if not arg1.is_not() or not arg1.arg.is_equals():\n            raise VeriTException(\"equiv_pos1\"", "        if not arg1.is_not():\n            raise VeriTException(\"equiv_pos1\"", 'C18.R9', 'verit_equiv_pos1')
B('C18', 'eq_congruent_pred leading literals untested', 'smt/veriT/verit_macro.py',
  "        if not all(arg.is_not() and arg.arg.is_equals() for arg in args[:-2]):\n            raise VeriTException(\"eq_congruent_pred\", \"all arguments except the last two should be negations of equalities\")\n", "", 'C18.R9', 'verit_eq_congruent_pred')
B('C18', 'connective test with the wrong polarity', 'smt/veriT/verit_macro.py',
  "        if not neg_conj.is_not():\n            raise VeriTException(\"and_pos\", \"first literal should be a negation\")", "        if neg_conj.is_not():\n            raise VeriTException(\"and_pos\", \"first literal should be a negation\")", 'C18.R9', 'verit_and_pos')
N('C18', 'connective test written as a whole-term comparison', 'smt/veriT/verit_macro.py',
  "        if not neg_disj.is_not():\n            raise VeriTException(\"or_pos\", \"first literal should be a negation\")", "        if neg_disj != Not(neg_disj.arg if neg_disj.is_not() else neg_disj):\n            raise VeriTException(\"or_pos\", \"first literal should be a negation\")")
N('C18', 'connective tests merged into one condition with the comparison', 'smt/veriT/verit_macro.py',
  "        if not pt.prop.is_implies():\n            raise VeriTException(\"implies\", \"premise should be an implication\")\n        if Or(Not(pt.prop.arg1), pt.prop.arg) == goal:",
  "        if pt.prop.is_implies() and Or(Not(pt.prop.arg1), pt.prop.arg) == goal:")
B('C04', 'imp_conj fast path without the connective test', 'logic/logic.py',
  "        assert goal.is_implies(), \"imp_conj: goal is not an implication\"\n", "", 'C04.M9', 'imp_conj')
B('C04', 'prove_avalI fast path without the head test', 'data/expr.py',
  "        assert goal.head == avalI and len(goal.args) == 3, \"prove_avalI_macro: goal is not of the form avalI s t n\"\n", "", 'C04.M9', 'prove_avalI')
N('C04', 'imp_disj connective test as if / raise', 'logic/logic.py',
  "        assert goal.is_implies(), \"imp_disj: goal is not an implication\"\n", "        if not goal.is_implies():\n            raise AssertionError(\"imp_disj: goal is not an implication\")\n")
B('C18', 'eq_simplify negated case with the test the wrong way round', 'smt/veriT/verit_macro.py',
  "            if not lhs.arg.is_equals() or lhs.arg.lhs != lhs.arg.rhs:\n                raise VeriTException(\"eq_simplify\", \"lhs should be of the form ~(t = t).\")",
  "            if not lhs.arg.is_equals() or lhs.arg.lhs == lhs.arg.rhs:\n                raise VeriTException(\"eq_simplify\", \"lhs should be of the form ~(t = t).\")", 'C18.R10', 'verit_eq_simplify')
B('C04', 'eq_simplify reflexive case with the test the wrong way round', 'smt/veriT/verit_macro.py',
  "            if lhs.lhs == lhs.rhs and rhs == true:\n                return Thm(arg)\n            elif rhs == false and lhs.lhs.is_constant()",
  "            if lhs.lhs != lhs.rhs and rhs == true:\n                return Thm(arg)\n            elif rhs == false and lhs.lhs.is_constant()", 'C04.M10', 'verit_eq_simplify')
B('C18', 'connective_def compares one unpacked part twice and the other never', 'smt/veriT/verit_macro.py',
  "                if q1 == p1 and o1 == p2 and p2 == q2 and p1 == o2:", "                if q1 == p1 and o2 == p1 and p2 == q2 and p1 == o2:", 'C18.R11', 'ConnectiveDefMacro.eval')

# ------------------------------------------------------------------------------------------- C17
CONGC = 'prover/congc.py'
B('C17', 'union without a proof-forest edge', CONGC,
  "                # Update the proof forest.\n                self._add_edge_proof_forest(a, b, E)\n", "", 'C17.G1', 'forest-edge')
B('C17', 'forest edge labelled with something else than the pending equation', CONGC,
  "                self._add_edge_proof_forest(a, b, E)", "                self._add_edge_proof_forest(a, b, (EQ_CONST, a, b))", 'C17.G1', 'forest-edge')
B('C17', 'forest edge points the wrong way', CONGC,
  "        self.proof_forest[s1] = (s2, label)", "        self.proof_forest[s2] = (s1, label)", 'C17.G1', 'edge(s1 -> (s2, label))')
B('C17', 'equations of the absorbed class that find no partner are dropped', CONGC,
  "                        self.lookup[(rep_c1, rep_c2)] = eq\n                        self.use_list[rep_b].append(eq)", "                        self.lookup[(rep_c1, rep_c2)] = eq", 'C17.G2', '')
B('C17', 'new application equation registered under one argument only', CONGC,
  "                self.use_list[rep_a1].append((s, t))\n                self.use_list[rep_a2].append((s, t))", "                self.use_list[rep_a1].append((s, t))", 'C17.G2', 'both-arguments')
B('C17', 'test compares the constants instead of their representatives', CONGC,
  "        return self.rep[t1] == self.rep[t2]", "        return t1 == t2", 'C17.G3', 'representatives')
B('C17', 'new constant gets no use list', CONGC,
  "            self.use_list[s] = []\n", "", 'C17.G3', 'initialises-all-tables')
B('C17', 'proof stored under the reversed pair', CONGC,
  "            self.pts[(u1, u2)] = pt", "            self.pts[(u2, u1)] = pt", 'C17.G4', 'proof-key')
B('C17', 'backward chain step passes the chain again', CONGC,
  "                    pt = pt.transitive(eq_pt.symmetric())", "                    pt = pt.transitive(pt, eq_pt.symmetric())", 'C17.G4', 'chain-step(backward)')
B('C17', 'backward chain step without symmetric', CONGC,
  "                    pt = pt.transitive(eq_pt.symmetric())", "                    pt = pt.transitive(eq_pt)", 'C17.G4', 'both-directions')
N('C17', 'test through local names', CONGC,
  "        return self.rep[t1] == self.rep[t2]", "        return self.rep[t2] == self.rep[t1]")
N('C17', 'forest edge added before the size comparison is undone', CONGC,
  "                # Update the proof forest.\n                self._add_edge_proof_forest(a, b, E)\n", "                self._add_edge_proof_forest(a, b, E)\n")

# ------------------------------------------------------------------------------------------- C15
SATF = 'prover/sat.py'
B('C15', 'resolution step not recorded in the certificate', SATF,
  "                    has_resolution = True\n                    proof.append(propagate_id)\n", "                    has_resolution = True\n", 'C15.X1', 'recorded')
B('C15', 'certificate records the conflict clause instead of the reason clause', SATF,
  "                    proof.append(propagate_id)", "                    proof.append(clause_id)", 'C15.X1', 'recorded')
B('C15', 'certificate does not start at the conflict clause', SATF,
  "        proof = [clause_id]", "        proof = []", 'C15.X1', 'certificate-starts-at-conflict-clause')
B('C15', 'index of the learned clause taken after appending it', SATF,
  "        new_id = len(cnf)\n        cnf.append(clause)", "        cnf.append(clause)\n        new_id = len(cnf)", 'C15.X2', 'index-of-learned-clause')
B('C15', 'unsatisfiable reported for unit clauses too', SATF,
  "        if len(clause) == 0:\n            return 'unsatisfiable'\n        elif len(clause) == 1:", "        if len(clause) <= 1 and level == 0:\n            return 'unsatisfiable'\n        elif len(clause) == 1:", 'C15.X2', 'unsatisfiable-only-for-recorded-empty-clause')
B('C15', 'satisfiable reported after any pass without propagation', SATF,
  "                if not has_unsatisfied:\n                    return 'satisfiable'\n                else:\n                    return None", "                return 'satisfiable'", 'C15.X3', 'satisfiable-needs(not has_unsatisfied)')
B('C15', 'clauses with two or more open literals not counted as unsatisfied', SATF,
  "                    else:\n                        has_unsatisfied = True", "                    else:\n                        pass", 'C15.X3', 'unsatisfied-clause-accounted')
B('C15', 'propagated literal stored without its reason', SATF,
  "                        assigns[name] = (val, False, level, clause_id)", "                        assigns[name] = (val, False, level, None)", 'C15.X4', 'trail-write(propagation)')
B('C15', 'backtracking reads the reason as the level', SATF,
  "            if assigns[name][2] > backtrack_level:", "            if assigns[name][3] > backtrack_level:", 'C15.X4', 'level-component')
B('C15', 'a connective is treated as logical without an expansion theorem', 'prover/tseitin.py',
  "    return t.is_implies() or t.is_equals() or t.is_conj() or t.is_disj() or t.is_not()", "    return t.is_implies() or t.is_equals() or t.is_conj() or t.is_disj() or t.is_not() or t.is_comb('xor', 2)", 'C15.X5', 'one-expansion-per-connective')
B('C15', 'sign of a converted literal inverted', 'prover/tseitin.py',
  "            return (lit.arg.name, False)\n        else:\n            return (lit.name, True)", "            return (lit.arg.name, True)\n        else:\n            return (lit.name, False)", 'C15.X5', 'sign')
N('C15', 'exits of unit propagation merged', SATF,
  "            if not has_propagate:\n                if not has_unsatisfied:\n                    return 'satisfiable'\n                else:\n                    return None",
  "            if not has_propagate and not has_unsatisfied:\n                return 'satisfiable'\n            if not has_propagate:\n                return None")
N('C15', 'certificate appended after the step it records', SATF,
  "                    proof.append(propagate_id)\n                    clause = resolution(clause, cnf[propagate_id], name)", "                    clause = resolution(clause, cnf[propagate_id], name)\n                    proof.append(propagate_id)")

# ------------------------------------------------------------------------------------------- C16
B('C16', 'gcd elimination through float division', 'prover/omega.py',
  "                elim_gcd_factoid = [i // g for i in df.factoid]", "                elim_gcd_factoid = [floor(i / g) for i in df.factoid]", 'C16.O1', 'extend_cross_product')
B('C16', 'witness bound through float division', 'prover/omega.py',
  "                c = c0 // (-coeff)", "                c = floor(c0 / (-coeff))", 'C16.O1', 'extend_vmap')
B('C16', 'integrality tested through float', 'prover/simplex.py',
  "                if Fraction(value).denominator != 1:\n                    return False", "                if not float(value).is_integer():\n                    return False", 'C16.O1', 'Simplex.all_integer')
B('C16', 'witness extension ignores upper bounds', 'prover/omega.py',
  "            if coeff < 0: #upper case\n                c = c0 // (-coeff)\n                if upper is None or c < upper:\n                    upper = c\n            \n            elif coeff > 0: #lower case",
  "            if coeff > 0: #lower case", 'C16.O2', 'all-constraints-both-signs')
N('C16', 'lcm with the division first', 'prover/omega.py',
  "    return a * b // gcd(a, b)", "    return a // gcd(a, b) * b")

# ------------------------------------------------------------------------------------------- C20
IPARSER2 = 'imperative/parser2.py'
IEXPR = 'imperative/expr.py'
ICOM = 'imperative/com.py'
B('C20', 'multiplication open on both sides', IPARSER2,
  '    ?times: times "*" uminus -> times_expr | uminus', '    ?times: times "*" times -> times_expr | uminus', 'C20.P1', 'production(times * times)')
B('C20', 'unary minus takes a whole sum', IPARSER2,
  '    ?uminus: "-" uminus -> uminus_expr | atom   // Unary minus: priority 80\n\n    ?times: times "*" uminus -> times_expr | uminus   // Multiplication: priority 70\n\n    ?expr: expr "+" times -> plus_expr      // Addition and subtraction: priority 65\n        | expr "-" times -> minus_expr\n        | times',
  '    ?times: times "*" atom -> times_expr | atom   // Multiplication: priority 70\n\n    ?expr: expr "+" times -> plus_expr      // Addition and subtraction: priority 65\n        | expr "-" times -> minus_expr\n        | "-" expr -> uminus_expr\n        | times',
  'C20.P1', 'production(- expr)')
B('C20', 'printer priority of conjunction below disjunction', IEXPR,
  '    "&": 35, "|": 30, "-->": 25, "<-->": 25,', '    "&": 30, "|": 35, "-->": 25, "<-->": 25,', 'C20.P2', 'order(&,|)')
B('C20', 'right operand of equal priority not bracketed for subtraction', IEXPR,
  "                arg1 = bracket(self.args[0], lambda q: q < p)\n                arg2 = bracket(self.args[1], lambda q: q <= p)",
  "                arg1 = bracket(self.args[0], lambda q: q < p)\n                arg2 = bracket(self.args[1], lambda q: q < p)", 'C20.P2', 'equal-priority-operands(-)')
B('C20', 'boolean connectives bracketed as if left associative', IEXPR,
  "                arg1 = bracket(self.args[0], lambda q: q <= p)\n                arg2 = bracket(self.args[1], lambda q: q < p)",
  "                arg1 = bracket(self.args[0], lambda q: q < p)\n                arg2 = bracket(self.args[1], lambda q: q <= p)", 'C20.P2', 'equal-priority-operands(-->)')
B('C20', 'negation of a conjunction printed without brackets', IEXPR,
  "        if len(self.args) == 1:\n            return 80 if self.op == '-' else 40", "        if len(self.args) == 1:\n            return 80 if self.op == '-' else 20", 'C20.P2', 'prefix(~)')
B('C20', 'exit condition of a loop not listed', ICOM,
  "                add_line(\"}\")\n                add_vc(cmd.post)", "                add_line(\"}\")", 'C20.P3', 'lists-post(While)')
B('C20', 'sequence computes the first command against the postcondition', ICOM,
  "            mid = self.c2.compute_wp(post)\n            pre = self.c1.compute_wp(mid)", "            mid = self.c2.compute_wp(post)\n            pre = self.c1.compute_wp(post)", 'C20.P3', 'Seq')
B('C20', 'loop body computed against the postcondition instead of the invariant', ICOM,
  "            self.c.compute_wp(self.inv)", "            self.c.compute_wp(post)", 'C20.P3', 'body-against-invariant')
B('C20', 'exit condition without the negated test', ICOM,
  "            self.post = [expr.conj(self.inv, expr.neg(self.b)), post]", "            self.post = [self.inv, post]", 'C20.P3', 'exit(I & ~b --> post)')
B('C20', 'branches of a conditional swapped', ICOM,
  "            self.pre.append(expr.ITE(self.b, pre_c1, pre_c2))", "            self.pre.append(expr.ITE(self.b, pre_c2, pre_c1))", 'C20.P3', 'Cond')
B('C20', 'assignment substitutes the variable for the expression', ICOM,
  "                self.pre.append(post.subst({self.v.name: self.e}))", "                self.pre.append(post)", 'C20.P3', 'Assign')
N('C20', 'sequence with other local names', ICOM,
  "            mid = self.c2.compute_wp(post)\n            pre = self.c1.compute_wp(mid)\n            self.pre.append(pre)", "            r = self.c2.compute_wp(post)\n            p = self.c1.compute_wp(r)\n            self.pre.append(p)")
N('C20', 'priorities rescaled', IEXPR,
  '    "*": 70, "+": 65, "-": 65,', '    "*": 72, "+": 66, "-": 66,')
B('C01', 'substitution without the closedness test', THM,
  "        if any(t.is_open() for t in list(inst.values()) + list(inst.var_inst.values())):\n            raise InvalidDerivationException(\"substitution: instantiation by an open term\")\n", "", 'C01.K10', 'closed(inst)')
B('C01', 'closedness tested for the schematic table only', THM,
  "        if any(t.is_open() for t in list(inst.values()) + list(inst.var_inst.values())):", "        if any(t.is_open() for t in inst.values()):", 'C01.K10', 'closed(inst.var_inst)')
N('C01', 'closedness test as two loops', THM,
  "        if any(t.is_open() for t in list(inst.values()) + list(inst.var_inst.values())):\n            raise InvalidDerivationException(\"substitution: instantiation by an open term\")\n",
  "        for t in inst.values():\n            if t.is_open():\n                raise InvalidDerivationException(\"substitution: instantiation by an open term\")\n        for t in inst.var_inst.values():\n            if t.is_open():\n                raise InvalidDerivationException(\"substitution: instantiation by an open term\")\n")
B('C01', 'step argument not tested against the table', THEORY,
  "                if sig is None:\n                    if seq.args is not None:\n                        raise CheckProofException(\"invalid input to derivation %s: takes no argument\" % seq.rule)\n                elif not isinstance(seq.args, sig):\n                    raise CheckProofException(\"invalid input to derivation \" + seq.rule)\n",
  "", 'C01.K11', 'argument-fits-signature')
B('C01', 'rules without argument accept one', THEORY,
  "                if sig is None:\n                    if seq.args is not None:\n                        raise CheckProofException(\"invalid input to derivation %s: takes no argument\" % seq.rule)\n                elif not isinstance(seq.args, sig):",
  "                if sig is not None and not isinstance(seq.args, sig):", 'C01.K11', 'argument-fits-signature')

# ------------------------------------------------------------------------------------------- rules added after the third round of seeded changes
B('C01', 'abstract_over binds a schematic variable when abstracting over a variable', TERM,
  "            if s.is_svar():\n                if t.is_svar() and s.name == t.name:", "            if s.is_svar():\n                if s.name == t.name:", 'C01.K13', 'leaf(svar) vs variable(var)')
B('C03', 'abstract_over binds a variable when abstracting over a schematic variable', TERM,
  "            elif s.is_var():\n                if t.is_var() and s.name == t.name:", "            elif s.is_var():\n                if s.name == t.name:", 'C03.I6', 'leaf(var) vs variable(svar)')
N('C01', 'abstract_over compares the leaf with the variable as a whole', TERM,
  "            if s.is_svar():\n                if t.is_svar() and s.name == t.name:", "            if s.is_svar():\n                if t.is_svar() and s.name == t.name and True:")
B('C01', 'is_open does not look into arguments', TERM,
  "                return rec(t.fun, n) or rec(t.arg, n)\n            elif t.is_abs():\n                return rec(t.body, n+1)\n            elif t.is_bound():\n                return t.n >= n",
  "                return rec(t.fun, n)\n            elif t.is_abs():\n                return rec(t.body, n+1)\n            elif t.is_bound():\n                return t.n >= n", 'C01.K12', 'Term.is_open')
B('C02', 'can_depend_on decides at the first differing component', 'kernel/proof.py',
  "        if other.id[:l-1] != self.id[:l-1]:\n            return False\n        return other.id[l-1] < self.id[l-1]",
  "        for i, j in zip(other.id, self.id):\n            if i != j:\n                return i < j\n        return False", 'C02.P10', 'different(i != j)')
B('C02', 'can_depend_on without the prefix comparison', 'kernel/proof.py',
  "        if other.id[:l-1] != self.id[:l-1]:\n            return False\n        return other.id[l-1] < self.id[l-1]",
  "        return other.id[l-1] < self.id[l-1]", 'C02.P10', '')
N('C02', 'can_depend_on with the prefix comparison written positively', 'kernel/proof.py',
  "        if other.id[:l-1] != self.id[:l-1]:\n            return False\n        return other.id[l-1] < self.id[l-1]",
  "        if other.id[:l-1] == self.id[:l-1]:\n            return other.id[l-1] < self.id[l-1]\n        return False")
B('C04', 'rewrite_goal evaluation keeps the hypotheses of the first premise only', 'logic/logic.py',
  "        _, goal = args\n        return Thm(goal, *(th.hyps for th in ths))", "        _, goal = args\n        return Thm(goal, ths[0].hyps)", 'C04.M11', 'rewrite_goal')
B('C06', 'occurrence test skips the head of an application', 'prover/fologic.py',
  "            return rec(t.fun, n) or rec(t.arg, n)", "            head, args = t.strip_comb()\n            return (head.is_abs() and rec(head, n)) or any(rec(arg, n) for arg in args)", 'C06.Z5', 'traverses(application)')
N('C06', 'occurrence test over head and arguments', 'prover/fologic.py',
  "            return rec(t.fun, n) or rec(t.arg, n)", "            head, args = t.strip_comb()\n            return rec(head, n) or any(rec(arg, n) for arg in args)")
B('C07', 'trailing lambda printed without brackets', 'syntax/pprint.py',
  "                if (op_data.assoc == operator.LEFT and get_priority(arg2) <= op_data.priority or\n                    op_data.assoc == operator.RIGHT and get_priority(arg2) < op_data.priority):\n                    arg2_ast = Bracket(arg2_ast)",
  "                if not arg2.is_abs() and \\\n                   (op_data.assoc == operator.LEFT and get_priority(arg2) <= op_data.priority or\n                    op_data.assoc == operator.RIGHT and get_priority(arg2) < op_data.priority):\n                    arg2_ast = Bracket(arg2_ast)",
  'C07.W1', 'child(lambda)')
B('C09', 'has_vars skips an abstraction in head position', TERM,
  "            return self.fun.has_vars(vs) or self.arg.has_vars(vs)", "            head, args = self.strip_comb()\n            return (head.is_var() and head in vs) or any(arg.has_vars(vs) for arg in args)", 'C09.N7', 'Term.has_vars')
B('C10', 'of_nat normalised with the real normaliser', 'data/real.py',
  "    elif t.is_comb('of_nat', 1):\n        return nat.convert_to_poly(t.arg)", "    elif t.is_comb('of_nat', 1):\n        return convert_to_poly(t.arg)", 'C10.V7', 'convert_to_poly')
B('C11', 'type variables under a binder not collected', 'server/items.py',
  "            Ts = t.var_T.get_tvars()\n            rec(t.body)", "            Ts = t.var_T.get_tvars()", 'C11.D6', 'traverses(abstraction)')
B('C13', 'editor admits facts by document order', 'server/method.py',
  "    assert all(goal_id.can_depend_on(fact_id) for fact_id in fact_ids), \\\n        \"apply_method: illegal dependence.\"", "    assert all(fact_id.id < goal_id.id for fact_id in fact_ids), \\\n        \"apply_method: illegal dependence.\"", 'C13.A8', 'facts-visible-from-goal')
N('C13', 'editor tests visibility in a loop', 'server/method.py',
  "    assert all(goal_id.can_depend_on(fact_id) for fact_id in fact_ids), \\\n        \"apply_method: illegal dependence.\"", "    for fact_id in fact_ids:\n        assert goal_id.can_depend_on(fact_id), \"apply_method: illegal dependence.\"")
B('C14', 'nat_norm suggested whatever the number of facts', 'data/nat.py',
  "    def search(self, state, id, prevs, data=None):\n        if data:\n            return [data]\n\n        if len(prevs) != 0:\n            return []\n\n        cur_th = state.get_proof_item(id).th\n        if nat_norm_macro().can_eval(cur_th.prop):",
  "    def search(self, state, id, prevs, data=None):\n        if data:\n            return [data]\n\n        cur_th = state.get_proof_item(id).th\n        if nat_norm_macro().can_eval(cur_th.prop):", 'C14.S5', 'nat_norm')
B('C15', 'unassigned literals filed under the variable name', SATF,
  "                unassigned = []  # list of unassigned literals", "                unassigned = dict()  # list of unassigned literals", 'C15.X6', 'counts-literals',
  more=[("                        unassigned.append(lit)", "                        unassigned.setdefault(name, val)"), ("                        name, val = unassigned[0]", "                        (name, val), = unassigned.items()")])
B('C16', 'contradiction of the dark-shadow search handed on in exact mode', 'prover/omega.py',
  "                    r2 = solve(EDARK, db_dark(), width)\n                    return drop_contr(extend_satisfiable(r2))", "                    r2 = solve(EDARK, db_dark(), width)\n                    return mode_result(em, extend_satisfiable(r2))", 'C16.O3', 'dark-result@EXACT')
N('C16', 'dark-shadow result through mode_result in a dark mode', 'prover/omega.py',
  "                r = solve(DARK, db_dark(), width)\n                return drop_contr(extend_satisfiable(r))\n        else:  # em == DARK", "                r = solve(DARK, db_dark(), width)\n                return mode_result(em, extend_satisfiable(r))\n        else:  # em == DARK")
B('C18', 'resolution keeps the hypotheses of the premises it resolved only', 'smt/veriT/verit_macro.py',
  "        _, cl_concl = resolve_order(prems)\n        if set(cl_concl) <= set(cl):\n            return Thm(Or(*cl), *(pt.hyps for pt in prevs))",
  "        resolves, cl_concl = resolve_order(prems)\n        used = sorted(set(i for res_step in resolves for i in res_step[:2] if i >= 0))\n        if set(cl_concl) <= set(cl):\n            return Thm(Or(*cl), *(prevs[i].hyps for i in used))", 'C18.R12', 'verit_th_resolution')
B('C20', 'substitution cancels a double operator by name', IEXPR,
  "        return Op(self.op, *(arg.subst(inst) for arg in self.args))", "        args = [arg.subst(inst) for arg in self.args]\n        if len(args) == 1 and isinstance(args[0], Op) and args[0].op == self.op:\n            return args[0].args[0]\n        return Op(self.op, *args)", 'C20.P4', 'Op.subst')
B('C20', 'substitution does not reach the index of an array access', IEXPR,
  "        return ArrayElt(self.ident.subst(inst), self.idx.subst(inst))", "        return ArrayElt(self.ident.subst(inst), self.idx)", 'C20.P4', 'ArrayElt.subst')
N('C20', 'substitution through a local list', IEXPR,
  "        return Op(self.op, *(arg.subst(inst) for arg in self.args))", "        args = [arg.subst(inst) for arg in self.args]\n        return Op(self.op, *args)")
B('C09', 'find_term does not look under binders', 'logic/matcher.py',
  "    if t.is_abs():\n        return find_term(t.body, sub_t)\n    return False", "    if t.is_abs():\n        return False\n    return False", 'C09.N7', 'find_term')
B('C08', 'annotation search does not look under binders', 'syntax/infertype.py',
  "                        to_replaceT = t.var_T\n                find_to_replace(t.body)", "                        to_replaceT = t.var_T", 'C08.U7', 'find_to_replace')
B('C20', 'HOL-level parser: multiplication and addition on one level', 'imperative/parser.py',
  '    ?times: times "*" atom -> times_expr | atom   // Multiplication binds tighter than addition\n\n    ?expr: expr "+" times -> plus_expr | times',
  '    ?expr: expr "+" expr -> plus_expr | expr "*" expr -> times_expr | atom', 'C20.P1', 'imperative/parser.py :: expr')
B('C20', 'forall operands printed without brackets', IEXPR,
  "            if isinstance(arg, (ITE, Forall)):", "            if isinstance(arg, ITE):", 'C20.P2', 'open-operand(Forall)')
B('C19', 'integrals printed with the priority of a function application', 'integral/expr.py',
  "        elif self.ty in (DERIV, INTEGRAL, EVAL_AT, INDEFINITEINTEGRAL, DIFFERENTIAL):\n            return 10", "        elif self.ty in (DERIV, INTEGRAL, EVAL_AT, INDEFINITEINTEGRAL, DIFFERENTIAL):\n            return 95", 'C19.E5', 'open-construct(Integral)')
B('C15', 'input clauses used as given', SATF,
  "    cnf = [list(dict.fromkeys(clause)) for clause in cnf]\n", "    cnf = copy(cnf)\n", 'C15.X7', 'learned-clause-has-distinct-literals')
N('C15', 'input clauses normalised through set()', SATF,
  "    cnf = [list(dict.fromkeys(clause)) for clause in cnf]\n", "    cnf = [sorted(set(clause)) for clause in cnf]\n")
B('C17', 'reflexive case of an explanation not handled', CONGC,
  "            if u == v:\n                # Nothing to explain: the closure records no path for u = u\n                return ProofTerm.reflexive(self.index[u])\n", "", 'C17.G5', 'request(get_proofterm(u1, u2))')
B('C11', 'definitions accept schematic variables', 'server/items.py',
  "            if self.prop.get_svars() or self.prop.get_stvars():\n                raise ItemException(\"Definition %s: schematic variables in the defining equation\" % self.name)\n", "", 'C11.D7', 'refuses(schematic variables)')
B('C11', 'rhs variables compared by name', 'server/items.py',
  "            lhs_vars = set(args)\n            rhs_vars = set(self.prop.rhs.get_vars())", "            lhs_vars = set(v.name for v in args)\n            rhs_vars = set(v.name for v in self.prop.rhs.get_vars())", 'C11.D7', 'variables-with-types',
  more=[('", ".join(v.name for v in rhs_vars - lhs_vars)))', '", ".join(v for v in rhs_vars - lhs_vars)))')])
B('C02', 'blocks walked without comparing identifier and position', THEORY,
  "            if s.id.id != prefix + (i,):\n                raise CheckProofException(\"id %s does not match position in proof\" % s.id)\n", "", 'C02.P11', 'item-at-its-position')
B('C02', 'block helper skips items that carry a sequent', THEORY,
  "            self._check_proof_item(prf, s, rpt, no_gaps, compute_only, check_level)\n\n    def check_proof(self, prf, rpt=None",
  "            if s.th is None:\n                self._check_proof_item(prf, s, rpt, no_gaps, compute_only, check_level)\n\n    def check_proof(self, prf, rpt=None", 'C02.P7', 'all-items')
# ------------------------------------------------------------------------------------------- round 4
B('C03', 'subst_bound does not count the binder it passes', TERM,
  "                body_t = rec(t.body, lev+1)\n                if body_t._id == t.body._id:\n                    return t\n                else:\n                    return Abs(t.var_name, t.var_T, body_t)",
  "                body_t = rec(t.body, lev)\n                if body_t._id == t.body._id:\n                    return t\n                else:\n                    return Abs(t.var_name, t.var_T, body_t)", 'C03.I7', '')
B('C12', 'cache reused when the file is not newer', BASIC,
  "if 'timestamp' in cache and timestamp == cache['timestamp']:", "if 'timestamp' in cache and timestamp <= cache['timestamp']:", 'C12.L9', 'reuse-test')
N('C12', 'cache validity test written with the operands exchanged', BASIC,
  "if 'timestamp' in cache and timestamp == cache['timestamp']:", "if 'timestamp' in cache and cache['timestamp'] == timestamp:")
B('C20', 'negation of a conjunction keeps the conjunction', IEXPR,
  "def neg(e):\n    return Op(\"~\", e)", "def neg(e):\n    if isinstance(e, Op) and e.op in (\"&\", \"|\"):\n        return Op(e.op, *(neg(arg) for arg in e.args))\n    return Op(\"~\", e)", 'C20.P5', 'neg')
B('C20', 'negation returns its argument', IEXPR,
  "def neg(e):\n    return Op(\"~\", e)", "def neg(e):\n    return e", 'C20.P5', 'neg')
N('C20', 'negation pushed inwards with the dual connective', IEXPR,
  "def neg(e):\n    return Op(\"~\", e)", "def neg(e):\n    if isinstance(e, Op) and e.op in (\"&\", \"|\"):\n        dual = \"|\" if e.op == \"&\" else \"&\"\n        return Op(dual, *(neg(arg) for arg in e.args))\n    return Op(\"~\", e)")
B('C13', 'deletion renumbers ids of the same depth only', 'kernel/proof.py',
  "        if len(self.id) >= k and self.id[:k-1] == id_remove.id[:k-1] and self.id[k-1] > id_remove.id[k-1]:",
  "        if len(self.id) == k and self.id[:k-1] == id_remove.id[:k-1] and self.id[k-1] > id_remove.id[k-1]:", 'C13.A10', 'ItemID.decr_id')
B('C14', 'insertion drops the components behind the renumbered one', 'kernel/proof.py',
  "            return ItemID(self.id[:k-1] + (self.id[k-1] + n,) + self.id[k:])", "            return ItemID(self.id[:k-1] + (self.id[k-1] + n,))", 'C14.S6', 'ItemID.incr_id_after')
N('C14', 'length of the reference id not named', 'kernel/proof.py',
  "        k = len(id_remove.id)\n        if len(self.id) >= k and", "        k = len(id_remove.id)\n        if len(self.id) >= len(id_remove.id) and")
B('C15', 'repeated clauses removed from the working list', SATF,
  "    cnf = [list(dict.fromkeys(clause)) for clause in cnf]\n", "    cnf = [list(clause) for clause in dict.fromkeys(tuple(dict.fromkeys(clause)) for clause in cnf)]\n", 'C15.X8', 'positional-image')
B('C15', 'empty clauses filtered from the working list', SATF,
  "    cnf = [list(dict.fromkeys(clause)) for clause in cnf]\n", "    cnf = [list(dict.fromkeys(clause)) for clause in cnf if clause]\n", 'C15.X8', 'positional-image')
B('C15', 'satisfied clauses removed during propagation', SATF,
  "                        if val == assigns[name][0]:\n                            satisfied = True\n                            break",
  "                        if val == assigns[name][0]:\n                            satisfied = True\n                            if level == 0 and clause_id == len(cnf) - 1:\n                                cnf.pop()\n                            break", 'C15.X8', 'append-only')
B('C16', 'tableau checked for basic variables only', 'prover/simplex.py',
  "            # if assertion.var_name in self.basic:\n            res = self.check()\n            if res == UNSAT:\n                raise UNSATException(\"variable %s is wrong.\" % str(self.wrong_var))",
  "            if assertion.var_name in self.basic:\n                res = self.check()\n                if res == UNSAT:\n                    raise UNSATException(\"variable %s is wrong.\" % str(self.wrong_var))", 'C16.O4', 'Simplex.handle_assertion')
B('C16', 'tableau checked once after all assertions', 'prover/simplex.py',
  "            # if assertion.var_name in self.basic:\n            res = self.check()\n            if res == UNSAT:\n                raise UNSATException(\"variable %s is wrong.\" % str(self.wrong_var))",
  "            if assertion is not self.atom[-1]:\n                continue\n            res = self.check()\n            if res == UNSAT:\n                raise UNSATException(\"variable %s is wrong.\" % str(self.wrong_var))", 'C16.O4', 'Simplex.handle_assertion')
N('C16', 'verdict of check tested without a local', 'prover/simplex.py',
  "            res = self.check()\n            if res == UNSAT:\n                raise UNSATException(\"variable %s is wrong.\" % str(self.wrong_var))",
  "            if self.check() == UNSAT:\n                raise UNSATException(\"variable %s is wrong.\" % str(self.wrong_var))")
B('C10', 'clean-up after normalising the left summand removes a zero on the right', 'data/integer.py',
  "                    try_conv(rewr_conv('int_add_0_left'))) # 0 +b = 0", "                    try_conv(rewr_conv('int_add_0_right'))) # 0 +b = 0", 'C10.V8', 'cleanup(int_add_0_right')
B('C10', 'clean-up after evaluating the coefficient removes a zero factor on the right', 'data/integer.py',
  "                        arg1_conv(int_eval_conv()),\n                        try_conv(rewr_conv('int_mul_0_l')))", "                        arg1_conv(int_eval_conv()),\n                        try_conv(rewr_conv('int_mul_0_r')))", 'C10.V8', 'cleanup(int_mul_0_r')
B('C19', 'sum of decaying terms takes the greater asymptote', 'integral/limits.py',
  "    if cmp == GREATER:\n        return b\n    elif cmp == LESS or cmp == EQUAL:\n        return a", "    if cmp == LESS:\n        return b\n    elif cmp == GREATER or cmp == EQUAL:\n        return a", 'C19.E6', 'asymp_add_inv')
B('C19', 'sum of growing terms takes the smaller asymptote', 'integral/limits.py',
  "    if cmp == LESS:\n        return b\n    elif cmp == GREATER or cmp == EQUAL:\n        return a", "    if cmp == LESS:\n        return a\n    elif cmp == GREATER or cmp == EQUAL:\n        return b", 'C19.E6', 'asymp_add ')
N('C19', 'equal asymptotes return the second argument', 'integral/limits.py',
  "    if cmp == GREATER:\n        return b\n    elif cmp == LESS or cmp == EQUAL:\n        return a", "    if cmp == GREATER or cmp == EQUAL:\n        return b\n    elif cmp == LESS:\n        return a")
B('C04', 'swap_disj_to_front decides the last literal by matching', VM,
  "            if i == 0 and idx == len(l_args) - 1:\n                # the disjunct to be moved is the last one: nothing follows it\n                eq_pt = eq_pt.on_rhs(rewr_conv('disj_comm'))\n            else:\n                eq_pt = eq_pt.on_rhs(rewr_conv('disj_swap_eq'))",
  "            try:\n                eq_pt = eq_pt.on_rhs(rewr_conv('disj_swap_eq'))\n            except ConvException:\n                eq_pt = eq_pt.on_rhs(rewr_conv('disj_comm'))", 'C04.M12', 'swap_disj_to_front')
B('C18', 'prod_simplify compares the remaining factors as sets', VM,
  "        if lhs_c == rhs_c and lhs_tms == rhs_tms:\n            return Thm(goal)", "        if lhs_c == rhs_c and set(lhs_tms) == set(rhs_tms):\n            return Thm(goal)", 'C18.R14', '')
B('C11', 'extra variables test is a proper-superset test', ITEMS,
  "            rhs_vars = set(self.prop.rhs.get_vars())\n            if not rhs_vars.issubset(lhs_vars):", "            rhs_vars = set(self.prop.rhs.get_vars())\n            if rhs_vars > lhs_vars:", 'C11.D7', '')
B('C01', 'blocks walked without comparing identifier and position (kernel view)', THEORY,
  "            if s.id.id != prefix + (i,):\n                raise CheckProofException(\"id %s does not match position in proof\" % s.id)\n", "", 'C01.K15', 'item-at-its-position')
# ------------------------------------------------------------------------------------------- truth tables / pattern evaluators
B('C18', 'compare_ac compares the operands of a sum without testing the second term', VM,
  "        return tm2.is_plus() and compare_ac(tm1.arg1, tm2.arg1) and compare_ac(tm1.arg, tm2.arg)", "        return compare_ac(tm1.arg1, tm2.arg1) and compare_ac(tm1.arg, tm2.arg)", 'C18.R15', 'compare_ac')
N('C18', 'compare_ac tests the second term first', VM,
  "        return tm2.is_plus() and compare_ac(tm1.arg1, tm2.arg1) and compare_ac(tm1.arg, tm2.arg)",
  "        if not tm2.is_plus():\n            return False\n        return compare_ac(tm1.arg1, tm2.arg1) and compare_ac(tm1.arg, tm2.arg)")
B('C18', 'onepoint does not compare the equation with the value of the variable', VM,
  "        return tm.is_equals() and ((tm.lhs == v and tm.rhs == t) or (tm.rhs == v and tm.lhs == t))", "        return tm.is_equals() and (tm.lhs == v or tm.rhs == v)", 'C18.R16', 'check_onepoint')
B('C18', 'onepoint exists case: flag not reset per variable', VM,
  "        for v, t in one_val_var.items():\n            found = False\n            for i, conj in enumerate(conjs):\n                if is_eq_of(conj, v, t):",
  "        found = False\n        for v, t in one_val_var.items():\n            for i, conj in enumerate(conjs):\n                if is_eq_of(conj, v, t):", 'C18.R17', 'check_onepoint')
B('C18', 'onepoint exists case: loop over the variables left after the first one', VM,
  "                    if conj.lhs != v:\n                        conjs[i] = Eq(conj.rhs, conj.lhs)\n                    break\n            if not found:\n                raise VeriTException(\"onepoint\", \"exists - equation not found\")",
  "                    if conj.lhs != v:\n                        conjs[i] = Eq(conj.rhs, conj.lhs)\n                    break\n            if not found:\n                raise VeriTException(\"onepoint\", \"exists - equation not found\")\n            break", 'C18.R17', 'check_onepoint')
B('C18', 'qnt_simplify ignores the stripped variables', VM,
  "        l_vars, l_bd = lhs.strip_quant()\n        if any(l_bd.occurs_var(v) for v in l_vars):\n            raise VeriTException(\"qnf_simplify\", \"a quantified variable occurs in the body\")\n", "        _, l_bd = lhs.strip_quant()\n", 'C18.R18', 'verit_qnt_simplify')
B('C18', 'qnt_cnf ignores the variables of the conclusion', VM,
  "        if any(prem.occurs_var(y) for y in ys):\n            raise VeriTException(\"qnt_cnf\", \"a variable quantified in the conclusion is free in the premise\")\n", "", 'C18.R18', 'verit_qnt_cnf')
B('C18', 'unary_minus_simplify tests a binary minus', VM,
  "        if lhs_neg_tm.is_uminus():\n            if lhs_neg_tm.arg == rhs:", "        if lhs_neg_tm.is_minus():\n            if lhs_neg_tm.arg == rhs:", 'C18.R19', 'verit_unary_minus_simplify')
B('C18', 'div_simplify accepts t / t = 1 for every t', VM,
  "        if lhs.arg1 == lhs.arg and rhs.is_one() and lhs.arg.is_constant() and real.real_eval(lhs.arg) != 0:\n            return Thm(goal)\n        # case 2: t / 1 <--> t\n        if lhs.arg1 == rhs and lhs.arg.is_one():\n            return Thm(goal)\n        if not lhs.is_constant()",
  "        if lhs.arg1 == lhs.arg and rhs.is_one():\n            return Thm(goal)\n        # case 2: t / 1 <--> t\n        if lhs.arg1 == rhs and lhs.arg.is_one():\n            return Thm(goal)\n        if not lhs.is_constant()", 'C18.R19', 'verit_div_simplify')
B('C18', 'equiv_pos1 accepts the literals in the wrong polarity', VM,
  "        if eq_tm.arg1 == arg2 and Not(eq_tm.arg) == arg3:\n            return Thm(Or(*args))\n        else:\n            raise VeriTException(\"equiv_pos1\"",
  "        if Not(eq_tm.arg1) == arg2 and Not(eq_tm.arg) == arg3:\n            return Thm(Or(*args))\n        else:\n            raise VeriTException(\"equiv_pos1\"", 'C18.R19', 'verit_equiv_pos1')
B('C18', 'not_equiv1 concludes the negated literals', VM,
  "        if p1 == pt_p1 and p2 == pt_p2:\n            return Thm(Or(p1, p2), pt.hyps)\n        else:\n            raise VeriTException(\"not_equiv1\"",
  "        if p1 == Not(pt_p1) and p2 == pt_p2:\n            return Thm(Or(p1, p2), pt.hyps)\n        else:\n            raise VeriTException(\"not_equiv1\"", 'C18.R19', 'verit_not_equiv1')
B('C18', 'comp_simplify: a <= a <--> false', VM,
  "        if lhs.is_less_eq() and lhs.arg1 == lhs.arg and rhs == true:", "        if lhs.is_less_eq() and lhs.arg1 == lhs.arg and rhs == false:", 'C18.R19', 'verit_comp_simplify')
B('C18', 'comp_simplify: a > b <--> ~(b <= a)', VM,
  "            r_a, r_b = rhs.arg.args\n            if l_a == r_a and l_b == r_b:\n                return Thm(goal)", "            r_a, r_b = rhs.arg.args\n            if l_a == r_b and l_b == r_a:\n                return Thm(goal)", 'C18.R19', 'verit_comp_simplify')
B('C18', 'implies_simplify: (P --> false) <--> P', VM,
  "        elif concl == false and Not(prem) == rhs:\n            return Thm(goal)", "        elif concl == false and prem == rhs:\n            return Thm(goal)", 'C18.R19', 'verit_implies_simplify')
N('C18', 'equiv_pos1: conditions as two nested tests', VM,
  "        if eq_tm.arg1 == arg2 and Not(eq_tm.arg) == arg3:\n            return Thm(Or(*args))\n        else:\n            raise VeriTException(\"equiv_pos1\"",
  "        if eq_tm.arg1 == arg2:\n            if arg3 == Not(eq_tm.rhs):\n                return Thm(Or(arg1, arg2, arg3))\n        if True:\n            raise VeriTException(\"equiv_pos1\"")
N('C18', 'not_equiv1: negated guard form', VM,
  "        if p1 == pt_p1 and p2 == pt_p2:\n            return Thm(Or(p1, p2), pt.hyps)\n        else:\n            raise VeriTException(\"not_equiv1\"",
  "        if p1 != pt_p1 or p2 != pt_p2:\n            raise VeriTException(\"not_equiv1\", \"unexpected goal: %s\" % Or(*args))\n        if True:\n            return Thm(Or(*args), pt.hyps)\n        else:\n            raise VeriTException(\"not_equiv1\"")
B('C18', 'CNF of a negated implication keeps the conclusion positive', VM,
  "            # ~(A --> B) becomes A & ~B\n            A, B = t.arg.args\n            return get_cnf(And(A, Not(B)))", "            # ~(A --> B) becomes A & ~B\n            A, B = t.arg.args\n            return get_cnf(And(A, B))", 'C18.R20', 'get_cnf')
B('C18', 'CNF of a negated if-then-else keeps the else branch positive', VM,
  "            return get_cnf(Or(And(P, Not(Q)), And(Not(P), Not(R))))", "            return get_cnf(Or(And(P, Not(Q)), And(Not(P), R)))", 'C18.R20', 'get_cnf')
N('C18', 'CNF of an equivalence with the conjuncts exchanged', VM,
  "            return get_cnf(Or(And(A, Not(B)), And(B, Not(A))))", "            return get_cnf(Or(And(B, Not(A)), And(A, Not(B))))")
B('C06', 'simplify1: false <--> q becomes q', 'prover/fologic.py',
  "        elif fm.arg1 == false:\n            return Not(fm.arg)\n        elif fm.arg == false:\n            return Not(fm.arg1)", "        elif fm.arg1 == false:\n            return fm.arg\n        elif fm.arg == false:\n            return Not(fm.arg1)", 'C06.Z7', 'simplify1')
B('C06', 'nnf of a negated disjunction is a disjunction', 'prover/fologic.py',
  "        elif p.is_disj():\n            return And(nnf(Not(p.arg1)), nnf(Not(p.arg)))", "        elif p.is_disj():\n            return Or(nnf(Not(p.arg1)), nnf(Not(p.arg)))", 'C06.Z7', 'nnf')
B('C06', 'nnf of an implication forgets the negation', 'prover/fologic.py',
  "        return Or(nnf(Not(fm.arg1)), nnf(fm.arg))", "        return Or(nnf(fm.arg1), nnf(fm.arg))", 'C06.Z7', 'nnf')
N('C06', 'nnf of an equivalence as two implications', 'prover/fologic.py',
  "        return Or(And(nnf(fm.arg1), nnf(fm.arg)),\n                  And(nnf(Not(fm.arg1)), nnf(Not(fm.arg))))", "        return And(Or(nnf(Not(fm.arg1)), nnf(fm.arg)),\n                   Or(nnf(Not(fm.arg)), nnf(fm.arg1)))")
B('C04', 'library statement with a wrong sign', 'library/int.json',
  '"prop": "n - m = 0 ⟷ -m = -n"', '"prop": "n - m = 0 ⟷ -m = n"', 'C04.M13', 'sub_move_0_l')
B('C04', 'library statement: distributivity with a dropped factor', 'library/verit.json',
  '"prop": "¬(if P then Q else R) ⟷ P ∧ ¬Q ∨ ¬P ∧ ¬R"', '"prop": "¬(if P then Q else R) ⟷ P ∧ ¬Q ∨ ¬R"', 'C04.M13', 'verit_not_ite_eq')
B('C20', 'substitution under a forall does not look at the substituted expressions', IEXPR,
  "        if any(occurs_var(t, self.var.name) for t in inst.values()):\n            raise NotImplementedError\n", "", 'C20.P6', 'Forall.subst')
B('C20', 'substitution under a forall does not look at the domain', IEXPR,
  "        if self.var.name in inst:\n            raise NotImplementedError\n        # The bound", "        # The bound", 'C20.P6', 'Forall.subst')
N('C20', 'capture test as a loop', IEXPR,
  "        if any(occurs_var(t, self.var.name) for t in inst.values()):\n            raise NotImplementedError\n",
  "        for t in inst.values():\n            if occurs_var(t, self.var.name):\n                raise NotImplementedError\n")
B('C16', 'input rows inserted without gcd reduction', 'prover/omega.py',
  "        g = functools.reduce(gcd, df.factoid[:-1], 0)\n        if g > 1:\n            elim_gcd_factoid = [i // g for i in df.factoid]\n            df = dfactoid(Factoid(elim_gcd_factoid), GCDCheck(df.deriv))\n        # A row without variables",
  "        # A row without variables", 'C16.O5', 'solve_matrix')
B('C16', 'gcd of derived rows without the initial value', 'prover/omega.py',
  "            g = functools.reduce(gcd, df.factoid[:-1], 0)\n            if g > 1:", "            g = functools.reduce(gcd, df.factoid[:-1])\n            if g > 1:", 'C16.O5', 'extend_cross_product')
N('C16', 'gcd of derived rows over absolute values', 'prover/omega.py',
  "            g = functools.reduce(gcd, df.factoid[:-1], 0)\n            if g > 1:", "            g = functools.reduce(gcd, [abs(c) for c in df.factoid[:-1]])\n            if g > 1:")
B('C18', 'qnt_rm_unused strips both sides without regard to the quantifier', VM,
  "        if lhs.is_forall():\n            l_vars, l_bd = lhs.strip_forall()\n            r_vars, r_bd = rhs.strip_forall()\n        else:\n            l_vars, l_bd = lhs.strip_exists()\n            r_vars, r_bd = rhs.strip_exists()\n        free_vars = []",
  "        l_vars, l_bd = lhs.strip_quant()\n        r_vars, r_bd = rhs.strip_quant()\n        free_vars = []", 'C18.R21', 'verit_qnt_rm_unused')
# ------------------------------------------------------------------------------------------- round 5
B('C01', 'subst_type skips hypotheses without schematic type variables', THM,
  "        hyps_new = tuple(hyp.subst_type(tyinst) for hyp in th.hyps)", "        hyps_new = tuple(hyp.subst_type(tyinst) if hyp.get_stvars() else hyp for hyp in th.hyps)", 'C01.K16', 'Thm.subst_type')
B('C01', 'substitution instantiates the hypotheses without the type part', THM,
  "            hyps_new = tuple(hyp.subst(inst) for hyp in th.hyps)", "            hyps_new = tuple(hyp.subst(Inst(inst)) for hyp in th.hyps)", 'C01.K16', 'Thm.substitution')
N('C01', 'subst_type builds the hypotheses as a list first', THM,
  "        hyps_new = tuple(hyp.subst_type(tyinst) for hyp in th.hyps)", "        hyps_new = [hyp.subst_type(tyinst) for hyp in th.hyps]")
B('C03', 'type instantiation applied before it is inferred', TERM,
  "        # First match type variables.\n        svars = self.get_svars()", "        t = self\n        if inst.tyinst:\n            t = self.subst_type(inst.tyinst)\n\n        # First match type variables.\n        svars = self.get_svars()", 'C03.I8', 'Term.subst',
  more=[("        t = self\n        if inst.tyinst:\n            t = self.subst_type(inst.tyinst)\n        return rec(t)", "        return rec(t)")])
B('C05', 'zero polynomial returned before the exponent is looked at', 'util/poly.py',
  "        assert isinstance(other, int) and other >= 0\n        if other == 0:\n            return Polynomial([Monomial(1, [])])", "        assert isinstance(other, int) and other >= 0\n        if self.is_zero_constant():\n            return self\n        if other == 0:\n            return Polynomial([Monomial(1, [])])", 'C05.T8', '__pow__')
N('C05', 'exponent one answered early, after the exponent zero', 'util/poly.py',
  "        if other == 0:\n            return Polynomial([Monomial(1, [])])\n\n        res = self", "        if other == 0:\n            return Polynomial([Monomial(1, [])])\n        if other == 1:\n            return self\n\n        res = self")
B('C12', 'limit located first, position tested by truth value', BASIC,
  "    found_limit = False\n    for item in content:\n        if limit and item.ty == limit[0] and item.name == limit[1]:\n            found_limit = True\n            break\n\n        if item.error is None:\n            theory.thy.unchecked_extend(item.get_extension())\n\n    if limit and not found_limit:\n        raise TheoryException(\"load_theory: limit %s not found\" % str(limit))\n",
  "    end = None\n    if limit:\n        for index, item in enumerate(content):\n            if item.ty == limit[0] and item.name == limit[1]:\n                end = index\n                break\n        else:\n            raise TheoryException(\"load_theory: limit %s not found\" % str(limit))\n\n    for item in (content[:end] if end else content):\n        if item.error is None:\n            theory.thy.unchecked_extend(item.get_extension())\n", 'C12.L10', 'load_theory')
N('C12', 'limit located first, position tested with is None', BASIC,
  "    found_limit = False\n    for item in content:\n        if limit and item.ty == limit[0] and item.name == limit[1]:\n            found_limit = True\n            break\n\n        if item.error is None:\n            theory.thy.unchecked_extend(item.get_extension())\n\n    if limit and not found_limit:\n        raise TheoryException(\"load_theory: limit %s not found\" % str(limit))\n",
  "    end = None\n    if limit:\n        for index, item in enumerate(content):\n            if item.ty == limit[0] and item.name == limit[1]:\n                end = index\n                break\n        else:\n            raise TheoryException(\"load_theory: limit %s not found\" % str(limit))\n\n    for item in (content[:end] if end is not None else content):\n        if item.error is None:\n            theory.thy.unchecked_extend(item.get_extension())\n")
N('C18', 'gen_and tests the second term first', VM,
  "    if t1.is_forall() and t2.is_forall():\n        v1, body1 = t1.arg.dest_abs()", "    if t2.is_forall() and t1.is_forall():\n        v1, body1 = t1.arg.dest_abs()")
B('C18', 'gen_or also moves a disjunction under a universal quantifier', VM,
  "    if t1.is_exists() and t2.is_exists():\n        v1, body1 = t1.arg.dest_abs()\n        v2, body2 = t2.arg.dest_abs()\n        if v1 == v2:\n            return Exists(v1, gen_or(body1, body2))",
  "    if t1.is_forall() and t2.is_forall():\n        v1, body1 = t1.arg.dest_abs()\n        v2, body2 = t2.arg.dest_abs()\n        if v1 == v2:\n            return Forall(v1, gen_or(body1, body2))", 'C18.R22', 'gen_or')
N('C20', 'HOL form of >= written with the operands in order', IEXPR,
  "            elif self.op == \">=\":\n                return e2 <= e1", "            elif self.op == \">=\":\n                return e1 >= e2")
B('C20', 'HOL form of > with the operands exchanged', IEXPR,
  "            elif self.op == \">\":\n                return e2 < e1", "            elif self.op == \">\":\n                return e1 < e2", 'C20.P7', 'case(>)')
N('C15', 'conflict clause copied before the analysis', SATF,
  "        clause = cnf[clause_id]\n        proof = [clause_id]", "        proof = [clause_id]\n        clause = cnf[clause_id]")
N('C17', 'explanation chain stored through a local', CONGC,
  "        res[(s, t)] = cur_path\n        return res", "        chain = cur_path\n        res[(s, t)] = chain\n        return res")
N('C06', 'names to avoid collected with a loop', 'prover/z3wrapper.py',
  "    var_names = [v.name for v in term.get_vars(As + [C])]", "    var_names = []\n    for v in term.get_vars(As + [C]):\n        var_names.append(v.name)")

# ------------------------------------------------------------------------------------------- rules of round 6
B('C01', 'Thm.is_equals looks at the conclusion behind the implications', THM,
  '"""Check whether the proposition of the theorem is of the form x = y."""\n        return self.prop.is_equals()',
  '"""Check whether the proposition of the theorem is of the form x = y."""\n        return self.concl.is_equals()', 'C01.K17', 'head-test-of')
B('C02', 'theorem step justified from the current global theory', THEORY,
  "                res_th = self.get_theorem(seq.args)", "                res_th = get_theorem(seq.args)", 'C02.P12', '')
B('C03', 'rigid type variable matches anything but another variable (behind Term.subst)', 'kernel/type.py',
  "        elif self.is_tvar():\n            if self != T:\n                raise TypeMatchException('Unable to match %s with %s' % (self, T))",
  "        elif self.is_tvar():\n            if T.is_tvar() and T.name != self.name:\n                raise TypeMatchException('Unable to match %s with %s' % (self, T))", 'C03.I9', 'tvar')
B('C04', 'apply_theorem evaluation generalises over the schematic variables left in the result', 'logic/logic.py',
  "        remain_svars = [t.subst_type(inst.tyinst) for t in svars if t.name not in inst]\n        for v in reversed(remain_svars):\n            th = Thm.forall_intr(v, th)",
  "        remain_svars = th.prop.get_svars()\n        for v in reversed(remain_svars):\n            th = Thm.forall_intr(v, th)", 'C04.M16', 'closing(forall_intr)')
B('C05', 'exact result zero read as no result', 'integral/inequality.py',
  "    try:\n        res = real.real_eval(t)\n    except ConvException:\n        res = real.real_approx_eval(t)\n\n    return res",
  "    try:\n        res = real.real_eval(t)\n    except ConvException:\n        res = None\n\n    return res or real.real_approx_eval(t)", 'C05.T9', 'eval_hol_expr')
B('C06', 'solution set compared with the interval by its end points', 'prover/sympywrapper.py',
  '    # print("Result: ", res)\n    return res == interval', '    # print("Result: ", res)\n    return res.start == interval.start and res.end == interval.end', 'C06.S4', 'answer(')
B('C09', 'a given instantiation without term bindings is replaced by an empty one', 'logic/matcher.py',
  "    if inst is None:\n        inst = Inst()\n    else:\n        inst = copy(inst)  # do not modify input",
  "    if inst is None or len(inst) == 0:\n        inst = Inst()\n    else:\n        inst = copy(inst)  # do not modify input", 'C09.N10', 'first_order_match')
B('C10', 'top_sweep_conv stops wherever the conversion raises no exception', 'logic/conv.py',
  "            pt = refl(t).on_rhs(try_conv(self.cv))\n            if not pt.is_reflexive():\n                return pt\n\n            if t.is_comb():\n                fun_pt = rec(t.fun)",
  "            try:\n                return self.cv.get_proof_term(t)\n            except ConvException:\n                pt = refl(t)\n\n            if t.is_comb():\n                fun_pt = rec(t.fun)", 'C10.V10', 'top_sweep_conv')
B('C11', 'constants of a term remembered by name', TERM,
  "            if t.is_const():\n                if t not in found:\n                    res.append(t)\n                    found.add(t)",
  "            if t.is_const():\n                if t.name not in found:\n                    res.append(t)\n                    found.add(t.name)", 'C11.D9', 'get_consts')
B('C13', 'rewrite_goal_with_prev tactic normalises with another conversion than its macro', 'logic/tactic.py',
  "        cv = then_conv(top_sweep_conv(rewr_conv(pt)),\n                       beta_norm_conv())\n        eq_th = cv.eval(C)",
  "        cv = then_conv(top_sweep_conv(rewr_conv(pt)),\n                       top_conv(beta_conv()))\n        eq_th = cv.eval(C)", 'C13.A12', 'rewrite_goal_with_prev')
B('C14', 'parameters of apply_forward_step parsed over the variables of the first fact', 'server/method.py',
  "    def apply(self, state: ProofState, id, data, prevs):\n        inst = Inst()\n        with context.fresh_context(vars=state.get_vars(id)):\n            for key, val in data.items():\n                if key.startswith(\"param_\"):\n                    if val != '':",
  "    def apply(self, state: ProofState, id, data, prevs):\n        inst = Inst()\n        with context.fresh_context(vars=state.get_vars(prevs[0])):\n            for key, val in data.items():\n                if key.startswith(\"param_\"):\n                    if val != '':", 'C14.S8', 'parse-context')
B('C15', 'backtracking removes the assignments of the current level only', SATF,
  "            if assigns[name][2] > backtrack_level:\n                del assigns[name]", "            if assigns[name][2] == level:\n                del assigns[name]", 'C15.X11', '')
B('C16', 'first entry of the hash bucket taken for the factoid looked up', 'prover/omega.py',
  "        for df in alist:\n            if df.factoid.key == fk.key:\n                return df\n        raise KeyError", "        for df in alist:\n            return df\n        raise KeyError", 'C16.O8', 'lookup_fkey')
B('C18', 'refl step judged under the context of the last anchor when its own is empty', 'smt/veriT/proof_rec.py',
  '        if rule_name == "refl":\n            args += (step.cur_ctx,)', '        if rule_name == "refl":\n            args += (step.cur_ctx or self.ctx,)', 'C18.R23', '')
B('C19', 'even negative exponents take the square case', 'integral/interval.py',
  "            elif eval_expr(other.start) == 2:\n                # Simple case", "            elif eval_expr(other.start) % 2 == 0:\n                # Simple case", 'C19.E8', '')
B('C20', 'else branch of a conditional condition read at the negation level', 'imperative/parser2.py',
  '        | "if" cond "then" cond "else" cond -> if_cond', '        | "if" cond "then" cond "else" neg -> if_cond', 'C20.P8', '')
B('C07', 'fresh_context restores the context only on normal exit', 'logic/context.py',
  "    ctxt = Context(svars=svars, vars=vars, defs=defs)\n    try:\n        yield None\n    finally:\n        # Recover previous context\n        ctxt = prev_ctxt",
  "    ctxt = Context(svars=svars, vars=vars, defs=defs)\n    yield None\n    # Recover previous context\n    ctxt = prev_ctxt", 'C07.W7', 'fresh_context')
B('C08', 'fresh_context restores the context only on normal exit', 'logic/context.py',
  "    ctxt = Context(svars=svars, vars=vars, defs=defs)\n    try:\n        yield None\n    finally:\n        # Recover previous context\n        ctxt = prev_ctxt",
  "    ctxt = Context(svars=svars, vars=vars, defs=defs)\n    yield None\n    # Recover previous context\n    ctxt = prev_ctxt", 'C08.U9', 'fresh_context')
B('C12', 'fresh_context restores the context only on normal exit', 'logic/context.py',
  "    ctxt = Context(svars=svars, vars=vars, defs=defs)\n    try:\n        yield None\n    finally:\n        # Recover previous context\n        ctxt = prev_ctxt",
  "    ctxt = Context(svars=svars, vars=vars, defs=defs)\n    yield None\n    # Recover previous context\n    ctxt = prev_ctxt", 'C12.L11', 'fresh_context')

# ------------------------------------------------------------------------------------------- rules of round 7
B('C03', 'one schematic variable per name is type-matched', TERM,
  "        svars = self.get_svars()\n        for v in svars:\n            if v.name in inst:\n                try:\n                    inst_T = inst[v.name].get_type()\n                    v.T.match_incr(inst_T, inst.tyinst)",
  "        svars = {v.name: v for v in self.get_svars()}\n        for nm in inst.keys():\n            if nm in svars:\n                v = svars[nm]\n                try:\n                    inst_T = inst[nm].get_type()\n                    svars[nm].T.match_incr(inst_T, inst.tyinst)", 'C03.I10', 'Term.subst')
N('C03', 'schematic variables to match collected by a filter first', TERM,
  "        svars = self.get_svars()\n        for v in svars:\n            if v.name in inst:\n                try:",
  "        svars = [sv for sv in self.get_svars() if sv.name in inst]\n        for v in svars:\n            if True:\n                try:")
B('C09', 'argument matched before the head variable is bound', 'logic/matcher.py',
  "                        inst[pat.head.name] = t.fun\n                        match(pat.arg, t.arg)", "                        match(pat.arg, t.arg)\n                        inst[pat.head.name] = t.fun", 'C09.N11', 'test-then-store')
B('C04', 'refl evaluation tries the orientations in the other order', VM,
  "        if goal.lhs.is_var() and goal.lhs.name in ctxt and ctxt[goal.lhs.name] == goal.rhs:\n            return Thm(goal, goal)\n        if goal.rhs.is_var() and goal.rhs.name in ctxt and ctxt[goal.rhs.name] == goal.lhs:\n            return Thm(goal, Eq(goal.rhs, goal.lhs))\n        else:",
  "        if goal.rhs.is_var() and goal.rhs.name in ctxt and ctxt[goal.rhs.name] == goal.lhs:\n            return Thm(goal, Eq(goal.rhs, goal.lhs))\n        if goal.lhs.is_var() and goal.lhs.name in ctxt and ctxt[goal.lhs.name] == goal.rhs:\n            return Thm(goal, goal)\n        else:", 'C04.M17', 'ReflMacro')
N('C04', 'refl evaluation names the hypothesis before returning', VM,
  "        if goal.lhs.is_var() and goal.lhs.name in ctxt and ctxt[goal.lhs.name] == goal.rhs:\n            return Thm(goal, goal)\n        if goal.rhs.is_var()",
  "        if goal.lhs.is_var() and goal.lhs.name in ctxt and ctxt[goal.lhs.name] == goal.rhs:\n            return Thm(goal, Eq(goal.lhs, goal.rhs))\n        if goal.rhs.is_var()")
B('C06', 'schematic variables translated like ordinary ones', 'prover/z3wrapper.py',
  "    def rec(t):\n        if t.is_var():\n            z3_t = convert_const(t.name, t.T, ctx)", "    def rec(t):\n        if t.is_var() or t.is_svar():\n            z3_t = convert_const(t.name, t.T, ctx)", 'C06.Z9', 'kinds-translated-by-name')
B('C08', 'occurs check for the representative only', 'syntax/infertype.py',
  "        for k, v in uf.items():\n            if uf[k] == T1:\n                if k in new_reach:\n                    raise TypeInferenceException(\"Infinite loop\")\n                uf[k] = T2",
  "        if int(T1.name[2:]) in new_reach:\n            raise TypeInferenceException(\"Infinite loop\")\n        for k, v in uf.items():\n            if uf[k] == T1:\n                uf[k] = T2", 'C08.U10', 'occurs-check-per-member')
N('C08', 'occurs check in a loop of its own over the members', 'syntax/infertype.py',
  "        for k, v in uf.items():\n            if uf[k] == T1:\n                if k in new_reach:\n                    raise TypeInferenceException(\"Infinite loop\")\n                uf[k] = T2",
  "        for k in [m for m in uf if uf[m] == T1]:\n            if k in new_reach:\n                raise TypeInferenceException(\"Infinite loop\")\n        for k, v in uf.items():\n            if uf[k] == T1:\n                uf[k] = T2")
B('C11', 'induction hypotheses chosen by the head of the type', 'server/items.py',
  "            As = [var_P(Var(nm, T2)) for nm, T2 in zip(constr['args'], argT) if T2 == T]", "            As = [var_P(Var(nm, T2)) for nm, T2 in zip(constr['args'], argT) if T2.is_tconst() and T2.name == self.name]", 'C11.D10', 'Datatype.get_extension')
N('C11', 'induction hypotheses built from the argument variables', 'server/items.py',
  "            As = [var_P(Var(nm, T2)) for nm, T2 in zip(constr['args'], argT) if T2 == T]", "            As = [var_P(arg) for arg in args if arg.T == T]")
B('C12', 'broken items skipped before the limit is looked at', BASIC,
  "    for item in content:\n        if limit and item.ty == limit[0] and item.name == limit[1]:", "    for item in content:\n        if item.error is not None:\n            continue\n        if limit and item.ty == limit[0] and item.name == limit[1]:", 'C12.L12', 'every-item-compared-with-limit')
B('C15', 'tautological clauses passed over in propagation', SATF,
  "            for clause_id, clause in enumerate(cnf):\n                satisfied = False  # whether the current clause is satisfied",
  "            for clause_id, clause in enumerate(cnf):\n                if any((nm, not vl) in clause for nm, vl in clause):\n                    continue\n                satisfied = False  # whether the current clause is satisfied", 'C15.X3', 'every-clause-examined')
B('C19', 'singular upper end approached from above', 'integral/poly.py',
  "                upper = expr.Limit(e.var, expr.POS_INF, e.body.subst(e.var, a - 1 / x))", "                upper = expr.Limit(e.var, expr.POS_INF, e.body.subst(e.var, a + 1 / x))", 'C19.E9', 'approach(')
B('C07', 'every integer literal rated as an atom', 'syntax/pprint.py',
  "        if (t.is_number() and isinstance(t.dest_number(), int) and t.dest_number() >= 0) or \\\n           list.is_literal_list(t):", "        if (t.is_number() and isinstance(t.dest_number(), int)) or \\\n           list.is_literal_list(t):", 'C07.W8', 'numeral-atom')
N('C07', 'sign of the literal tested first', 'syntax/pprint.py',
  "        if (t.is_number() and isinstance(t.dest_number(), int) and t.dest_number() >= 0) or \\\n           list.is_literal_list(t):", "        if (t.is_number() and not t.dest_number() < 0 and isinstance(t.dest_number(), int)) or \\\n           list.is_literal_list(t):")
B('C10', 'conj_norm answers early on the sorted list of conjuncts', 'logic/logic.py',
  "        goal = Eq(t, And(*term_ord.sorted_terms(strip_conj(t))))\n        return imp_conj_iff(goal)", "        ts = strip_conj(t)\n        if term_ord.sorted_terms(ts) == ts:\n            return refl(t)\n        goal = Eq(t, And(*term_ord.sorted_terms(ts)))\n        return imp_conj_iff(goal)", 'C10.V11', 'conj_norm')
N('C10', 'conj_norm answers early when the term is its own normal form', 'logic/logic.py',
  "        goal = Eq(t, And(*term_ord.sorted_terms(strip_conj(t))))\n        return imp_conj_iff(goal)", "        nf = And(*term_ord.sorted_terms(strip_conj(t)))\n        if nf == t:\n            return refl(t)\n        goal = Eq(t, nf)\n        return imp_conj_iff(goal)")
B('C13', 'introduction makes one assume line per distinct antecedent', 'logic/tactic.py',
  "        ptAs = [ProofTerm.assume(A) for A in As]", "        ptAs = [ProofTerm.assume(A) for A in dict.fromkeys(As)]", 'C13.A13', 'one-assume-per-antecedent')
B('C16', 'bounds that meet taken for a contradiction', 'prover/omega.py',
  "        if u < l:\n            if em in (DARK, EDARK):", "        if u <= l:\n            if em in (DARK, EDARK):", 'C16.O9', 'contradiction-by')
B('C17', 'class lists joined the other way round', CONGC,
  "                self.class_list[rep_b] += self.class_list[rep_a]", "                self.class_list[rep_a] += self.class_list[rep_b]", 'C17.G9', 'class-list-takes-over')
B('C14', 'forward step closes the goal by the new fact', 'server/method.py',
  "            state.set_line(id, 'apply_theorem', args=data['theorem'], prevs=prevs)\n\n        id2 = id.incr_id(1)\n        new_id = state.find_goal(state.get_proof_item(id2).th, id2)\n        if new_id is not None:\n            state.replace_id(id2, new_id)",
  "            state.set_line(id, 'apply_theorem', args=data['theorem'], prevs=prevs)\n\n        id2 = id.incr_id(1)\n        new_id = state.find_goal(state.get_proof_item(id2).th, id2)\n        if new_id is not None:\n            state.replace_id(id2, id)", 'C14.S9', 'redirect')
B('C13', 'apply_tactic closes the new subgoals in forward order', 'server/method.py',
  "        for item in reversed(new_prf.items):\n            if item.rule == 'sorry':", "        for item in new_prf.items:\n            if item.rule == 'sorry':", 'C13.A14', 'apply_tactic')
B('C14', 'introduction closes every line of the new block that stands earlier in the proof', 'server/method.py',
  "        for item in reversed(list(cur_item.subproof.items)):\n            if item.rule == 'sorry':\n                new_id = state.find_goal(state.get_proof_item(item.id).th, item.id)\n                if new_id is not None:\n                    state.replace_id(item.id, new_id)",
  "        for item in reversed(list(cur_item.subproof.items)):\n            new_id = state.find_goal(state.get_proof_item(item.id).th, item.id)\n            if new_id is not None:\n                state.replace_id(item.id, new_id)", 'C14.S10', 'introduction.apply')
N('C13', 'apply_tactic walks over a reversed copy', 'server/method.py',
  "        for item in reversed(new_prf.items):\n            if item.rule == 'sorry':", "        for item in reversed(list(new_prf.items)):\n            if item.rule != 'sorry':\n                continue\n            if True:")
B('C16', 'input rows without variables filed like any other row', 'prover/omega.py',
  "        if df.factoid.is_false_factoid():\n            return \"UNSAT\", Contr(df.deriv)\n        elif df.factoid.is_true_factoid():\n            continue\n        insert_db(db, df)", "        insert_db(db, df)", 'C16.O10', 'solve_matrix')
B('C15', 'the constant false encoded like an atom', 'prover/tseitin.py',
  "        elif eq_pt.rhs == false:", "        elif False:", 'C15.X12', 'constant(false)')
B('C06', 'numerals handed to Z3 as Python numbers', 'prover/z3wrapper.py',
  "            if T in (NatType, IntType):\n                return z3.IntVal(t.dest_number(), ctx)", "            if T in (NatType, IntType):\n                return t.dest_number()", 'C06.Z10', 'numeral-is-a-Z3-value')
B('C06', 'equation formed between function declarations', 'prover/z3wrapper.py',
  "            if t.arg1.get_type().is_fun():\n                # A function becomes a Z3 declaration, and == between two\n                # declarations is a Python comparison of the declarations.\n                raise Z3Exception(\"convert: equality between functions \" + repr(t))\n", "", 'C06.Z10', 'no-equation-between-declarations')
B('C06', 'types of same-named variables not compared', 'prover/z3wrapper.py',
  "        if var_types.setdefault(v.name, v.T) != v.T:", "        if False:", 'C06.Z11', 'one-type-per-name')
B('C06', 'natural-number subtraction handed to SymPy', 'prover/sympywrapper.py',
  "        if t.get_type() == NatType:\n            raise SymPyException(\"convert: subtraction of natural numbers: %s\" % str(t))\n", "", 'C06.S5', 'subtraction-not-at-nat')
N('C06', 'same-named variables compared through a membership test', 'prover/z3wrapper.py',
  "        if var_types.setdefault(v.name, v.T) != v.T:", "        if v.name in var_types and var_types[v.name] != v.T:",
  more=[("            print_debug('variable %s occurs at two types' % v.name)\n            return s\n", "            print_debug('variable %s occurs at two types' % v.name)\n            return s\n        var_types[v.name] = v.T\n")])
B('C18', 'nested ite case does not compare the right-hand condition', VM,
  "                if l_P == l_then_P and l_P == r_P and l_then_then == r_then and l_else == r_else:\n                    return True", "                if l_P == l_then_P and l_then_then == r_then and l_else == r_else:\n                    return True", 'C18.R24', 'compare_ite')
B('C18', 'bind without its freshness side condition', VM,
  "            if lhs.occurs_var(rv):\n                raise VeriTException(\"bind\", \"bound variable of rhs occurs free in lhs\")\n", "", 'C18.R25', 'BindMacro')
N('C18', 'bind tests freshness through the list of free variables', VM,
  "            if lhs.occurs_var(rv):\n                raise VeriTException(\"bind\", \"bound variable of rhs occurs free in lhs\")\n", "            if rv in lhs.get_vars():\n                raise VeriTException(\"bind\", \"bound variable of rhs occurs free in lhs\")\n")
B('C19', 'sum under a power without parentheses', 'integral/rules.py',
  "                return normal(rec(x) / (Const(1) + (x ^ Const(2))))", "                return normal(rec(x) / (Const(1) + x ^ Const(2)))", 'C19.E10', 'deriv')
B('C01', 'checked_get_type accepts a negative de Bruijn index', TERM,
  "                bodyT = rec(t.body, [t.var_T] + bd_vars)\n                return TFun(t.var_T, bodyT)\n            elif t.is_bound():\n                # A negative number is not a de Bruijn index (and would\n                # count the binders from the outside).\n                if t.n < 0 or t.n >= len(bd_vars):",
  "                bodyT = rec(t.body, [t.var_T] + bd_vars)\n                return TFun(t.var_T, bodyT)\n            elif t.is_bound():\n                if t.n >= len(bd_vars):", 'C01.K18', 'checked_get_type')
B('C04', 'imp_to_or expansion walks over the goal as well', VM,
  "        disjs = []\n        for arg in args[:-1]:\n            if arg.is_not():", "        disjs = []\n        for arg in args:\n            if arg.is_not():", 'C04.M18', 'imp_to_or')
B('C04', 'nat_const_ineq decides from the values of the numerals alone', 'data/nat.py',
  "        return m.get_type() == NatType and m.is_number() and n.is_number() and m.dest_number() != n.dest_number()", "        return m.is_number() and n.is_number() and m.dest_number() != n.dest_number()", 'C04.M19', 'nat_const_ineq')
B('C14', 'nat_const_less_eq offered for numerals of any type', 'data/nat.py',
  "        return m.get_type() == NatType and m.is_number() and n.is_number() and m.dest_number() <= n.dest_number()", "        return m.is_number() and n.is_number() and m.dest_number() <= n.dest_number()", 'C14.S11', 'nat_const_less_eq')
N('C04', 'nat_const_ineq tests the type with is_nat', 'data/nat.py',
  "        return m.get_type() == NatType and m.is_number() and n.is_number() and m.dest_number() != n.dest_number()", "        if not m.is_nat():\n            return False\n        return m.is_number() and n.is_number() and m.dest_number() != n.dest_number()")
B('C05', 'nat_eval takes the value of any numeral', 'data/nat.py',
  "        n = t.dest_number()\n        if not (isinstance(n, int) and n >= 0):\n            raise ConvException('nat_eval: %s' % str(t))\n        return n", "        n = t.dest_number()\n        return n", 'C05.T10', 'numeral-leaf')
B('C09', 'heuristic branch assigns the function part without the bound-variable test', 'logic/matcher.py',
  "                        if bd_vars and t.fun.has_vars(bd_vars):\n                            raise MatchException(trace)\n", "", 'C09.N12', 'free-of-stand-ins')
B('C09', 'stand-in chosen against the two bodies only', 'logic/matcher.py',
  "                for s in inst.values():\n                    var_names.extend(v.name for v in s.get_vars())\n", "", 'C09.N13', 'avoid-list-includes-instantiation')
B('C20', 'separator appended to whatever line comes last', 'imperative/com.py',
  "            for line in reversed(lines):\n                if line['ty'] == 'com':\n                    line['str'] += ';'\n                    return\n            raise AssertionError", "            lines[-1]['str'] += ';'", 'C20.P9', 'add_str')
B('C11', 'datatype constructor recorded without comparing names and argument types', 'server/items.py',
  "                if len(constr['args']) != len(argT):\n                    raise ItemException(\"Datatype %s: %s has %d arguments, %d names are given\" % (\n                        self.name, constr['name'], len(argT), len(constr['args'])))\n", "", 'C11.D11', 'names-match-argument-types')
B('C16', 'one-term constraint with coefficient zero dropped', 'prover/simplex.py',
  "                elif lower_bound > 0: # 0 * x >= b with b > 0 does not hold\n                    self.false_ineq = ineq\n", "", 'C16.O11', 'coefficient-cases')

# ------------------------------------------------------------------------------------------- rules of round 8
B('C11', 'own-definition test compares with the name of the theorem', 'server/items.py',
  "            if any(c.name == self.name and not types_disjoint(c.T, self.type)", "            if any(c.name == self.cname and not types_disjoint(c.T, self.type)", 'C11.D12', '')
B('C13', 'exists_elim counts the lines to add from the names given', 'server/method.py',
  "        state.add_line_before(id, len(vars) + 1)", "        state.add_line_before(id, len(names) + 1)", 'C13.A15', '')
B('C16', 'sub-problems inherit the constraints on other variables only', 'prover/simplex.py',
  "                s1.add_ineqs(ineq1, *node.simplex.original)", "                s1.add_ineqs(ineq1, *[q for q in node.simplex.original if q.jars != ineq1.jars])", 'C16.O12', '')
B('C17', 'second half of the explanation path in forward order', 'prover/congc.py',
  "        for i in reversed(range(len_t-pos)):", "        for i in range(len_t-pos):", 'C17.G10', '')
B('C18', 'argument pairs of eq_congruent collapsed through a dictionary', VM,
  "        concl_eq = [(i, j) for i, j in zip(concl.lhs.strip_comb()[1], concl.rhs.strip_comb()[1])]", "        concl_eq = list(dict(zip(concl.lhs.strip_comb()[1], concl.rhs.strip_comb()[1])).items())", 'C18.R26', '')
B('C09', 'pattern argument looked up with itself as default', 'logic/matcher.py',
  "                            Tlist.append(inst[v.name].get_type())", "                            Tlist.append(inst.get(v.name, v).get_type())", 'C09.N14', '')
B('C08', 'function type joined with its expected form without unification', 'syntax/infertype.py',
  "                    unify(funT, TFun(argT, resT))", "                    union(funT, TFun(argT, resT))", 'C08.U11', '')
B('C10', 'beta normalisation stops after contracting a redex with a non-abstraction argument', 'logic/conv.py',
  "                    pt2 = ProofTerm.beta_conv(pt.rhs)\n                    pt3 = rec(pt2.rhs)", "                    pt2 = ProofTerm.beta_conv(pt.rhs)\n                    if not t.arg.is_abs():\n                        return pt.transitive(pt2)\n                    pt3 = rec(pt2.rhs)", 'C10.V12', '')
B('C14', 'forward step returns without a line when the fact is already there', 'server/method.py',
  "        state.add_line_before(id, 1)\n        if inst:\n            state.set_line(id, 'apply_theorem_for'", "        if state.find_goal(res_th, id) is not None:\n            return\n        state.add_line_before(id, 1)\n        if inst:\n            state.set_line(id, 'apply_theorem_for'", 'C14.S12', '')
B('C07', 'the binder constant of a definite description given the type of a quantifier', 'syntax/parser.py',
  "        the_t = Const(\"The\", None)\n        return the_t(Abs(str(var_name), T,", "        the_t = Const(\"The\", TFun(TFun(T, BoolType), BoolType))\n        return the_t(Abs(str(var_name), T,", 'C07.W9', '')
N('C07', 'the binder constant of a typed quantifier given its declared type', 'syntax/parser.py',
  "        all_t = Const(\"all\", None)\n        return all_t(Abs(str(var_name), T,", "        all_t = Const(\"all\", TFun(TFun(T, BoolType), BoolType))\n        return all_t(Abs(str(var_name), T,")
B('C20', 'variable names read as numbers in base 26', 'imperative/parser.py',
  "    return ord(s) - ord(\"a\")", "    n = 0\n    for c in s:\n        n = 26 * n + (ord(c) - ord(\"a\"))\n    return n", 'C20.P10', '')
B('C19', 'constant split off on the left of a sum or a difference alike', 'integral/rules.py',
  "        elif e.args[0].is_uminus() and e.args[1].is_const():\n            # (-a) ^ n", "        elif (e.args[1].is_plus() or e.args[1].is_minus()) and e.args[0].is_const() and e.args[1].args[0].is_const():\n            return (e.args[0] ^ e.args[1].args[0]) * (e.args[0] ^ e.args[1].args[1])\n        elif e.args[0].is_uminus() and e.args[1].is_const():\n            # (-a) ^ n", 'C19.E11', '')
N('C17', 'explanation path collected by comprehensions, second half reversed', 'prover/congc.py',
  "        cur_path = []\n        for i in range(1, len_s-pos+1):\n            _, eq = s_path[i]\n            cur_path.append(eq)\n        for i in reversed(range(len_t-pos)):\n            _, eq = t_path[i+1]\n            cur_path.append(eq)",
  "        cur_path = [eq for _, eq in s_path[1:len_s-pos+1]]\n        cur_path += [eq for _, eq in reversed(t_path[1:len_t-pos+1])]")
N('C13', 'exists_elim names the number of opened variables', 'server/method.py',
  "        state.add_line_before(id, len(vars) + 1)", "        n_new = len(vars)\n        state.add_line_before(id, n_new + 1)")
N('C19', 'constant split off on the left of a sum only', 'integral/rules.py',
  "        elif e.args[0].is_uminus() and e.args[1].is_const():\n            # (-a) ^ n", "        elif e.args[1].is_plus() and e.args[0].is_const() and e.args[1].args[0].is_const():\n            return (e.args[0] ^ e.args[1].args[0]) * (e.args[0] ^ e.args[1].args[1])\n        elif e.args[0].is_uminus() and e.args[1].is_const():\n            # (-a) ^ n")
N('C20', 'str_to_nat names the code of the first letter', 'imperative/parser.py',
  "    return ord(s) - ord(\"a\")", "    base = ord(\"a\")\n    return ord(s) - base")
N('C16', 'sub-problems get a copy of the whole list', 'prover/simplex.py',
  "                s1.add_ineqs(ineq1, *node.simplex.original)", "                s1.add_ineqs(ineq1, *list(node.simplex.original))")
N('C08', 'expected function type named before unification', 'syntax/infertype.py',
  "                    unify(funT, TFun(argT, resT))", "                    expected = TFun(argT, resT)\n                    unify(funT, expected)")

# ------------------------------------------------------------------------------------------- rules of round 9
B('C03', 'type instantiation applied to the result of the replacement', TERM,
  "        t = self\n        if inst.tyinst:\n            t = self.subst_type(inst.tyinst)\n        return rec(t)", "        t = rec(self)\n        if inst.tyinst:\n            t = t.subst_type(inst.tyinst)\n        return t", 'C03.I11', '')
N('C03', 'type instantiation of the pattern, then the replacement, result named', TERM,
  "        t = self\n        if inst.tyinst:\n            t = self.subst_type(inst.tyinst)\n        return rec(t)", "        t = self\n        if inst.tyinst:\n            t = t.subst_type(inst.tyinst)\n        t = rec(t)\n        return t")
B('C12', 'import order asked for before the theory\'s own entry is re-validated', 'logic/basic.py',
  "    load_theory_cache(filename, username)\n    \n    cache = theory_cache[username][filename]\n\n    # Load imported theories\n    depend_list = get_import_order(cache['imports'], username)",
  "    cache = theory_cache[username][filename]\n\n    # Load imported theories\n    depend_list = get_import_order(cache['imports'], username)\n    load_theory_cache(filename, username)", 'C12.L13', '')
N('C12', 'load_theory uses the entry returned by load_theory_cache', 'logic/basic.py',
  "    load_theory_cache(filename, username)\n    \n    cache = theory_cache[username][filename]\n", "    cache = load_theory_cache(filename, username)\n")
B('C11', 'constructor recorded whatever type variables its type mentions', 'server/items.py',
  "                if any(tv not in resT.args for tv in constr_type.get_tvars()):\n                    raise ItemException(\"Datatype %s: %s has a type variable that is not a parameter of the datatype\" % (\n                        self.name, constr['name']))\n", "", 'C11.D11', 'type-variables-are-parameters')
N('C11', 'type variables of a constructor tested with all()', 'server/items.py',
  "                if any(tv not in resT.args for tv in constr_type.get_tvars()):", "                if not all(tv in resT.args for tv in constr_type.get_tvars()):")
B('C08', 'occurs check on the sets as recorded', 'syntax/infertype.py',
  "        todo = list(new_reach)\n        while todo:\n            for j in reach[todo.pop()]:\n                if j not in new_reach:\n                    new_reach.add(j)\n                    todo.append(j)\n", "", 'C08.U12', '')
N('C08', 'closure loop with an explicit work list index', 'syntax/infertype.py',
  "        todo = list(new_reach)\n        while todo:\n            for j in reach[todo.pop()]:\n                if j not in new_reach:\n                    new_reach.add(j)\n                    todo.append(j)\n",
  "        todo = list(new_reach)\n        while len(todo) > 0:\n            cur = todo.pop()\n            for j in reach[cur]:\n                if j in new_reach:\n                    continue\n                new_reach.add(j)\n                todo.append(j)\n")
