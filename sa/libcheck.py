"""Stated theorems of the library, evaluated over a small domain.

Expansions and proofs rest on the theorems of library/*.json; most of those of the arithmetic and SMT theories
are stated without proof and are taken as axioms.  A statement whose variables are all of type bool / nat /
int / real and whose operators are the propositional connectives, comparisons, + - * / ^, unary minus, abs,
max, min, Suc, numerals and if-then-else denotes a finite table over a small domain: it must come out true in
every row (a row in which it is false is a counterexample in the intended model too: naturals with truncated
subtraction, integers, rationals, x / 0 = 0).

The statement strings are parsed with lark and the grammar text found in syntax/parser.py (read as data from
the syntax tree of that module; no project code runs).  Statements outside the fragment are counted, not
judged."""
import itertools
import json
import os
from fractions import Fraction as F

from .core import AnalysisError
from .grammar import grammar_text

DOM = {'bool': (False, True), 'int': (-2, -1, 0, 1, 3), 'real': (F(-2), F(-1, 2), F(0), F(1), F(3, 2)), 'nat': (0, 1, 2, 3)}


class Outside(Exception):
    pass


def _unify(a, b):
    if a == b:
        return a
    if a == 'num':
        return b
    if b == 'num':
        return a
    raise Outside('types %s / %s' % (a, b))


def _ev(t, sigma, ty):
    from lark import Tree
    if not isinstance(t, Tree):
        raise Outside('token')
    d, ch = t.data, list(t.children)

    def B(x):
        v, T = _ev(x, sigma, ty)
        if T != 'bool':
            raise Outside('non-boolean operand of a connective')
        return v
    if d == 'vname':
        n = str(ch[0])
        if n in ('true', 'false'):
            return n == 'true', 'bool'
        if n in ty:
            return sigma[n], ty[n]
        raise Outside('constant ' + n)
    if d == 'number':
        return int(str(ch[0])), 'num'
    if d == 'typed_term':
        v, T = _ev(ch[0], sigma, ty)
        tt = ch[1]
        if not (isinstance(tt, Tree) and tt.data == 'type'):
            raise Outside('type annotation')
        T2 = str(tt.children[0])
        if T2 not in DOM:
            raise Outside('type ' + T2)
        if T == 'num':
            if T2 == 'nat' and v < 0:
                raise Outside('negative natural')
            return (F(v) if T2 == 'real' else v), T2
        if T != T2:
            raise Outside('annotation changes the type')
        return v, T
    if d == 'neg':
        return (not B(ch[0])), 'bool'
    if d == 'conj':
        return (B(ch[0]) and B(ch[1])), 'bool'
    if d == 'disj':
        return (B(ch[0]) or B(ch[1])), 'bool'
    if d == 'imp':
        return ((not B(ch[0])) or B(ch[1])), 'bool'
    if d == 'iff':
        return (B(ch[0]) == B(ch[1])), 'bool'
    if d == 'if_expr':
        c = B(ch[0])
        a, Ta = _ev(ch[1], sigma, ty)
        b, Tb = _ev(ch[2], sigma, ty)
        return (a if c else b), _unify(Ta, Tb)
    if d in ('eq', 'less_eq', 'less', 'greater_eq', 'greater', 'plus', 'minus', 'times', 'real_divide'):
        a, Ta = _ev(ch[0], sigma, ty)
        b, Tb = _ev(ch[1], sigma, ty)
        T = _unify(Ta, Tb)
        if d == 'eq':
            return (a == b), 'bool'
        if T in ('bool', 'num'):
            raise Outside('arithmetic without a number type')
        if d == 'less_eq':
            return a <= b, 'bool'
        if d == 'less':
            return a < b, 'bool'
        if d == 'greater_eq':
            return a >= b, 'bool'
        if d == 'greater':
            return a > b, 'bool'
        if d == 'plus':
            return a + b, T
        if d == 'minus':
            return (max(a - b, 0) if T == 'nat' else a - b), T
        if d == 'times':
            return a * b, T
        if T != 'real':
            raise Outside('division on ' + T)
        return (F(a) / F(b) if b != 0 else F(0)), T
    if d == 'uminus':
        a, T = _ev(ch[0], sigma, ty)
        if T not in ('int', 'real'):
            raise Outside('unary minus on ' + T)
        return -a, T
    if d == 'power':
        a, Ta = _ev(ch[0], sigma, ty)
        b, Tb = _ev(ch[1], sigma, ty)
        if Tb in ('nat', 'num') and Ta in ('int', 'real', 'nat') and isinstance(b, int) and b >= 0:
            return a ** b, Ta
        raise Outside('power on %s / %s' % (Ta, Tb))
    if d == 'comb':
        args, h = [], t
        while isinstance(h, Tree) and h.data == 'comb':
            args.insert(0, h.children[1])
            h = h.children[0]
        if not (isinstance(h, Tree) and h.data == 'vname'):
            raise Outside('application')
        f = str(h.children[0])
        vals = [_ev(a, sigma, ty) for a in args]
        if f == 'abs' and len(vals) == 1 and vals[0][1] in ('int', 'real'):
            return abs(vals[0][0]), vals[0][1]
        if f in ('max', 'min') and len(vals) == 2:
            T = _unify(vals[0][1], vals[1][1])
            if T in ('int', 'real', 'nat'):
                return (max if f == 'max' else min)(vals[0][0], vals[1][0]), T
        if f == 'Suc' and len(vals) == 1 and vals[0][1] in ('nat', 'num'):
            return vals[0][0] + 1, 'nat'
        raise Outside('function ' + f)
    raise Outside(d)


def check_library(repo):
    """[(file, name, statement, verdict, detail)] with verdict in 'holds' / 'fails' / 'outside'"""
    try:
        from lark import Lark
    except ImportError as e:       # pragma: no cover
        raise AnalysisError('lark is not importable: %s' % e)
    try:
        L = Lark(grammar_text(repo.module('syntax/parser.py')), start='term', parser='lalr')
    except Exception as e:
        raise AnalysisError('syntax/parser.py: grammar does not load: %s' % e)
    out = []
    libdir = os.path.join(repo.root, 'library')
    files = 0
    for fn in sorted(os.listdir(libdir)):
        if not fn.endswith('.json'):
            continue
        try:
            d = json.load(open(os.path.join(libdir, fn), encoding='utf-8'))
        except ValueError:
            continue
        files += 1
        for it in d.get('content', []):
            if it.get('ty') not in ('thm', 'thm.ax') or not isinstance(it.get('prop'), str):
                continue
            vars_ = it.get('vars', {}) or {}
            rel = 'library/' + fn
            if any(v not in DOM for v in vars_.values()):
                out.append((rel, it.get('name', '?'), it['prop'], 'outside', 'variable of another type'))
                continue
            try:
                tree = L.parse(it['prop'])
            except Exception:
                out.append((rel, it.get('name', '?'), it['prop'], 'outside', 'does not parse as a plain term'))
                continue
            names = sorted(vars_)
            try:
                fails = None
                for row in itertools.product(*[DOM[vars_[k]] for k in names]):
                    sigma = dict(zip(names, row))
                    v, T = _ev(tree, sigma, vars_)
                    if T != 'bool':
                        raise Outside('not a proposition')
                    if not v:
                        fails = sigma
                        break
                if fails is None:
                    out.append((rel, it.get('name', '?'), it['prop'], 'holds', '%s' % ('proved' if 'proof' in it else 'stated without proof')))
                else:
                    out.append((rel, it.get('name', '?'), it['prop'], 'fails',
                                ', '.join('%s = %s' % (k, fails[k]) for k in names) + (' (has a proof)' if 'proof' in it else ' (stated without proof)')))
            except Outside as e:
                out.append((rel, it.get('name', '?'), it['prop'], 'outside', str(e)))
    return files, out
