"""State that outlives a call: module-level and class-level mutable containers, mutable default
parameter values, and values a function stores into something its caller (or the module) keeps.

The rules built on this ask one question: can the answer of a function depend on an earlier call?  A
container created per call cannot carry anything over; a default-argument container, a class attribute
or a module-level table can."""
import ast

from .astutil import src, walk_no_nested

MUT_CTORS = {'dict', 'set', 'list', 'defaultdict', 'OrderedDict', 'Counter', 'deque'}
MUT_METHODS = {'add', 'append', 'extend', 'update', 'insert', 'pop', 'popitem', 'clear', 'setdefault', 'remove', 'discard',
               'appendleft', 'popleft', 'sort', 'reverse', '__setitem__', '__delitem__'}
STORE_METHODS = {'add', 'append', 'extend', 'update', 'insert', 'setdefault', 'appendleft', '__setitem__'}


def is_mutable_ctor(v):
    if isinstance(v, (ast.Dict, ast.Set, ast.List, ast.DictComp, ast.SetComp, ast.ListComp)):
        return True
    if isinstance(v, ast.Call):
        f = v.func
        n = f.id if isinstance(f, ast.Name) else (f.attr if isinstance(f, ast.Attribute) else None)
        return n in MUT_CTORS
    return False


def _assigned(body):
    for n in body:
        if isinstance(n, ast.Assign) and n.value is not None:
            for t in n.targets:
                if isinstance(t, ast.Name):
                    yield t.id, n.value, n
        elif isinstance(n, ast.AnnAssign) and n.value is not None and isinstance(n.target, ast.Name):
            yield n.target.id, n.value, n


def module_containers(module):
    return {name: node for name, v, node in _assigned(module.tree.body) if is_mutable_ctor(v)}


def class_containers(classnode):
    return {name: node for name, v, node in _assigned(classnode.body) if is_mutable_ctor(v)}


def mutable_defaults(funcnode):
    a = funcnode.args
    out = {}
    params = a.posonlyargs + a.args
    for p, d in zip(params[len(params) - len(a.defaults):], a.defaults):
        if is_mutable_ctor(d):
            out[p.arg] = d
    for p, d in zip(a.kwonlyargs, a.kw_defaults):
        if d is not None and is_mutable_ctor(d):
            out[p.arg] = d
    return out


def mutations_of(root, pred, nested=True):
    """in-place modifications of an object denoted by an expression for which pred(expr) holds:
    method mutators, subscript stores / deletes, augmented assignment.  Returns [(lineno, text)]."""
    out = []
    it = ast.walk(root) if nested else walk_no_nested(root, include_root=False)
    for n in it:
        if isinstance(n, ast.Call) and isinstance(n.func, ast.Attribute) and n.func.attr in MUT_METHODS and pred(n.func.value):
            out.append((n.lineno, src(n, 50)))
        elif isinstance(n, (ast.Assign, ast.AugAssign, ast.AnnAssign)):
            targets = n.targets if isinstance(n, ast.Assign) else [n.target]
            for t in targets:
                if isinstance(t, ast.Subscript) and pred(t.value):
                    out.append((n.lineno, src(n, 50)))
                elif isinstance(n, ast.AugAssign) and pred(t):
                    out.append((n.lineno, src(n, 50)))
        elif isinstance(n, ast.Delete):
            for t in n.targets:
                if isinstance(t, ast.Subscript) and pred(t.value):
                    out.append((n.lineno, src(n, 50)))
    return out


def rebinds(funcnode, name):
    """the function rebinds `name` itself (so a default value is replaced by a fresh object)"""
    for n in walk_no_nested(funcnode, include_root=False):
        if isinstance(n, ast.Assign) and any(isinstance(t, ast.Name) and t.id == name for t in n.targets):
            return True
    return False


COPYING = {'list', 'tuple', 'sorted', 'reversed', 'set', 'frozenset'}


def may_alias(flow, expr, roots, _seen=None, _elem=False):
    """May the object denoted by `expr` be (part of) an object named by one of `roots` (parameters, module
    tables) - following only name copies, subscripts, attributes, loop elements and shallow copies
    (list(x) is a new list of the same elements)?  Displays, arithmetic and other calls give new objects."""
    _seen = _seen if _seen is not None else set()
    if isinstance(expr, ast.Name):
        if expr.id in roots and (expr.id in flow.params or not flow.is_local(expr.id)):
            return True
        if (expr.id, _elem) in _seen:
            return False
        _seen.add((expr.id, _elem))
        for kind, rhs in flow.defs.get(expr.id, []):
            if kind == 'update':
                continue
            if may_alias(flow, rhs, roots, _seen, _elem or kind == 'elem'):
                return True
        return False
    if isinstance(expr, (ast.Subscript, ast.Attribute, ast.Starred)):
        return may_alias(flow, expr.value, roots, _seen, True)
    if isinstance(expr, ast.IfExp):
        return may_alias(flow, expr.body, roots, _seen, _elem) or may_alias(flow, expr.orelse, roots, _seen, _elem)
    if isinstance(expr, ast.Call) and isinstance(expr.func, ast.Name) and expr.func.id in COPYING and expr.args and _elem:
        return may_alias(flow, expr.args[0], roots, _seen, True)
    if isinstance(expr, ast.Call) and isinstance(expr.func, ast.Attribute) and expr.func.attr in ('get', 'setdefault', 'pop'):
        return may_alias(flow, expr.func.value, roots, _seen, True)      # an entry of the receiver
    return False


def stale_after_swap(funcnode, cfg):
    """After `a, b = b, a` the expressions a and b were bound to name the *other* operand.  Returns
    [(swap stmt, stale use node, text)] for uses, reachable from the swap, of an expression that one of the
    swapped names was defined as (`lhs, rhs = fm.arg1, fm.arg` ... swap ... `fm.arg1`)."""
    out = []
    stmts = [n for n in cfg.nodes if n.kind == 'stmt' and isinstance(n.ast, ast.Assign)]
    for s in stmts:
        a = s.ast
        if not (isinstance(a.targets[0], ast.Tuple) and isinstance(a.value, ast.Tuple) and len(a.targets[0].elts) == 2 and len(a.value.elts) == 2):
            continue
        t1, t2 = a.targets[0].elts
        v1, v2 = a.value.elts
        if not (all(isinstance(x, ast.Name) for x in (t1, t2, v1, v2)) and t1.id == v2.id and t2.id == v1.id):
            continue
        names = (t1.id, t2.id)
        # what the two names were bound to before
        origin = {}
        defining = set()
        for d in stmts:
            if d is s:
                continue
            da = d.ast
            if isinstance(da.targets[0], ast.Tuple) and isinstance(da.value, ast.Tuple) and len(da.targets[0].elts) == len(da.value.elts):
                for t, v in zip(da.targets[0].elts, da.value.elts):
                    if isinstance(t, ast.Name) and t.id in names and not isinstance(v, (ast.Name, ast.Constant)):
                        origin[src(v, 200)] = t.id
                        defining.add(d.id)
            elif isinstance(da.targets[0], ast.Name) and da.targets[0].id in names and not isinstance(da.value, (ast.Name, ast.Constant)):
                origin[src(da.value, 200)] = da.targets[0].id
                defining.add(d.id)
        if not origin:
            continue
        reach = cfg.reach_from([b for b, _l in s.succ], skip_nodes=[n for n in cfg.nodes if n.id in defining])
        for n in cfg.nodes:
            if n.id not in reach or n is s or n.id in defining:
                continue
            for h in cfg.headers(n):
                # the re-definition itself is not a use
                if n.kind == 'stmt' and isinstance(n.ast, ast.Assign) and src(n.ast.value, 200) in origin:
                    continue
                for x in ast.walk(h):
                    if isinstance(x, (ast.Attribute, ast.Subscript, ast.Call)) and src(x, 200) in origin:
                        out.append((s, n, src(x, 200), origin[src(x, 200)]))
    return out


def scoped_state_rule(repo, rid, only=None):
    """A `@contextmanager` function that changes process-wide state before its `yield` (rebinds a global, updates an
    object reachable from one) promises the state back when the with-block ends - however it ends.  The generator is
    resumed by an exception thrown in at the `yield` when the block raises: only a `finally` runs then.  So the `yield`
    sits in a `try` whose `finally` writes the state back.  (A failing parse inside `with fresh_context(..)` is the normal
    way to learn that input is ill-formed: it must not leave the inner declarations in force.)"""
    from .core import RuleResult
    from .astutil import src
    res = RuleResult(rid, 'a context manager that changes global state restores it on every exit of the with-block, exceptional ones included', floor=2)
    for m in repo.source_modules():
        for f in m.all_funcs:
            if f.parent is not None or not any((d or '').endswith('contextmanager') for d in f.decorators()):
                continue
            if only is not None and f.name not in only:
                continue
            globs = {n for g in ast.walk(f.node) if isinstance(g, ast.Global) for n in g.names}
            yields = [y for y in ast.walk(f.node) if isinstance(y, (ast.Yield, ast.YieldFrom))]
            if not yields:
                continue

            def writes(stmts):
                out = []
                for st in stmts:
                    for n in ast.walk(st):
                        if isinstance(n, (ast.Assign, ast.AugAssign)):
                            for t in (n.targets if isinstance(n, ast.Assign) else [n.target]):
                                base = t
                                while isinstance(base, (ast.Attribute, ast.Subscript)):
                                    base = base.value
                                if isinstance(base, ast.Name) and base.id in globs:
                                    out.append(n)
                        if isinstance(n, ast.Call) and isinstance(n.func, ast.Attribute) and n.func.attr in ('update', 'clear', 'append', 'pop', 'extend', 'add'):
                            base = n.func.value
                            while isinstance(base, (ast.Attribute, ast.Subscript)):
                                base = base.value
                            if isinstance(base, ast.Name) and base.id in globs:
                                out.append(n)
                        if isinstance(n, ast.Call) and isinstance(n.func, ast.Name) and n.func.id in m.functions and \
                                any(isinstance(g, ast.Global) for g in ast.walk(m.functions[n.func.id].node)):
                            out.append(n)        # a function of the module that itself rebinds globals (set_context)
                return out
            # statements in front of the first yield (in source order)
            yl = min(y.lineno for y in yields)
            before = [st for st in ast.walk(f.node) if isinstance(st, ast.stmt) and not isinstance(st, (ast.FunctionDef, ast.Try, ast.If, ast.With, ast.For, ast.While)) and
                      st.lineno < yl]
            changed = writes(before)
            if not changed:
                res.add('%s :: %s :: restores-on-every-exit' % (m.rel, f.qualname), True, 'changes no global state before yielding', f.loc, nontrivial=False)
                continue
            bad = []
            for y in yields:
                guarded = False
                for t in ast.walk(f.node):
                    if isinstance(t, ast.Try) and t.finalbody and any(x is y for st in t.body for x in ast.walk(st)) and writes(t.finalbody):
                        guarded = True
                if not guarded:
                    bad.append(y)
            res.add('%s :: %s :: restores-on-every-exit' % (m.rel, f.qualname), not bad,
                    'the yield is inside try / finally, and the finally writes the state back' if not bad else
                    'line %d yields after `%s` without a try / finally that writes the state back: when the with-block raises (an ill-formed input '
                    'is reported by an exception) the changed state stays in force for everything that follows' % (bad[0].lineno, src(changed[0], 50)),
                    '%s:%d' % (m.rel, (bad[0] if bad else yields[0]).lineno))
    return res
