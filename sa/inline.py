"""Reading a function together with the helpers it was split into.

A rule that follows the statements of one function (a CFG path rule, a def-use question) loses its subject when a
maintainer moves part of the body into a helper - `prev_ths = self._get_prev_ths(prf, seq.id, seq.prevs)`.  `inlined`
gives the function as it reads with chosen helper calls expanded in place, so the rule applies to the same program
whichever way it is cut up.  Nothing is executed; the expansion is a source-to-source rewriting with these limits:

  call sites    statements of the forms  `x = h(..)`,  `h(..)`,  `return h(..)`,  `if [not] h(..):` (h answering with
                True / False only: each answer is replaced by the branch it selects); a call evaluated unconditionally
                inside a larger expression of a simple statement is first given a name (`t = h(..)`);  h is `self.<method>` of the
                same class (or a base class in the repo), a function of the same module, or a function nested in the
                caller; no *args / **kwargs on either side
  helpers       plain functions (no generator, no global / nonlocal, no decorator other than staticmethod) in which
                `return` occurs only in `if` nests - code after an `if` that returned moves into the other branch;
                a `return` inside a loop (without break / else of its own) becomes `<result>; break` with the code after
                the loop as the loop's else-branch; a `return` inside `try` / `with` or an inner loop cannot be expressed
                without a jump and the call is left alone
  parameters    an argument that is a name, a constant, an attribute path or a lambda replaces a parameter the
                helper never assigns (a lambda applied in the helper is beta-reduced); anything else is bound by an
                assignment in front of the expansion
  names         locals of the helper that also occur in the caller are renamed `<name>__<helper>`, except those the call
                statement assigns anyway

A call that does not fit stays as it is (the rule then sees what it saw before).  Positions of the helper's statements
are kept, so a report points at the line in the helper.
"""
import ast
import copy

from .repo import FuncInfo


class NotInlinable(Exception):
    pass


def _own_walk(node):
    """nodes of a function body, not entering nested function definitions (lambdas are entered)"""
    todo = list(node.body) if isinstance(node, (ast.FunctionDef, ast.AsyncFunctionDef)) else [node]
    while todo:
        n = todo.pop()
        yield n
        for c in ast.iter_child_nodes(n):
            if isinstance(c, (ast.FunctionDef, ast.AsyncFunctionDef, ast.ClassDef)):
                yield c
                continue
            todo.append(c)


def _has_return(stmts):
    for s in stmts:
        if isinstance(s, (ast.FunctionDef, ast.AsyncFunctionDef, ast.ClassDef)):
            continue
        if isinstance(s, ast.Return):
            return True
        for n in _own_walk(s):
            if isinstance(n, ast.Return):
                return True
    return False


def _terminates(stmts):
    if not stmts:
        return False
    s = stmts[-1]
    if isinstance(s, (ast.Return, ast.Raise)):
        return True
    if isinstance(s, ast.If):
        return bool(s.orelse) and _terminates(s.body) and _terminates(s.orelse)
    return False


def _structure(stmts, ret, loops_ok=False):
    """stmts without `return`: ret(return stmt) gives the replacement; what follows an `if` that returns is moved into
    the branches that go on"""
    out = []
    for i, s in enumerate(stmts):
        if isinstance(s, ast.Return):
            out.extend(ret(s))
            return out
        if isinstance(s, ast.If) and _has_return([s]):
            rest = list(stmts[i + 1:])
            body = _structure(list(s.body) + ([] if _terminates(s.body) else copy.deepcopy(rest)), ret, loops_ok)
            orelse = _structure(list(s.orelse) + ([] if _terminates(s.orelse) else copy.deepcopy(rest)), ret, loops_ok)
            new = ast.If(test=s.test, body=body or [ast.copy_location(ast.Pass(), s)], orelse=orelse)
            out.append(ast.copy_location(new, s))
            return out
        if isinstance(s, (ast.For, ast.While)) and _has_return([s]) and loops_ok:
            # `for ..: .. return v` followed by rest  ==  `for ..: .. <v>; break` with rest as the loop's else-branch, if
            # the loop has no break / else of its own (the else-branch of a loop runs when it was not left by break)
            own = _own_level(s.body)
            if s.orelse or any(isinstance(n, ast.Break) for n in own) or _has_return_in_inner_loop(s.body):
                raise NotInlinable('return inside a loop that has a break or an else-branch')
            s.body = _loop_returns(s.body, ret)
            s.orelse = _structure(list(stmts[i + 1:]), ret, loops_ok)
            out.append(s)
            return out
        if not isinstance(s, (ast.FunctionDef, ast.AsyncFunctionDef, ast.ClassDef)) and _has_return([s]):
            raise NotInlinable('return inside %s' % type(s).__name__)
        out.append(s)
    return out


def _own_level(stmts):
    """nodes of stmts that belong to the enclosing loop: inner loops and definitions are not entered"""
    todo = list(stmts)
    while todo:
        n = todo.pop()
        yield n
        for c in ast.iter_child_nodes(n):
            if isinstance(c, (ast.For, ast.While, ast.FunctionDef, ast.AsyncFunctionDef, ast.ClassDef, ast.Lambda)):
                continue
            todo.append(c)


def _has_return_in_inner_loop(stmts):
    for n in _own_level(stmts):
        for c in ast.iter_child_nodes(n):
            if isinstance(c, (ast.For, ast.While)) and _has_return([c]):
                return True
    return any(isinstance(s, (ast.For, ast.While)) and _has_return([s]) for s in stmts)


def _loop_returns(stmts, ret):
    out = []
    for s in stmts:
        if isinstance(s, ast.Return):
            out.extend(ret(s))
            out.append(ast.copy_location(ast.Break(), s))
            return out
        for fld in ('body', 'orelse', 'finalbody'):
            sub = getattr(s, fld, None)
            if isinstance(sub, list) and sub and isinstance(sub[0], ast.stmt) and not isinstance(s, (ast.FunctionDef, ast.AsyncFunctionDef, ast.ClassDef)):
                setattr(s, fld, _loop_returns(sub, ret))
        for h in getattr(s, 'handlers', []) or []:
            h.body = _loop_returns(h.body, ret)
        out.append(s)
    return out


def _stored_names(fnode):
    names = set()
    for n in _own_walk(fnode):
        if isinstance(n, ast.Name) and isinstance(n.ctx, (ast.Store, ast.Del)):
            names.add(n.id)
        elif isinstance(n, (ast.FunctionDef, ast.AsyncFunctionDef, ast.ClassDef)):
            names.add(n.name)
        elif isinstance(n, ast.ExceptHandler) and n.name:
            names.add(n.name)
        elif isinstance(n, (ast.Import, ast.ImportFrom)):
            for a in n.names:
                names.add((a.asname or a.name).split('.')[0])
    return names


def _simple(e):
    if isinstance(e, (ast.Name, ast.Constant)):
        return True
    if isinstance(e, ast.Attribute):
        return _simple(e.value)
    if isinstance(e, ast.Lambda):
        return True
    return False


class _Subst(ast.NodeTransformer):
    def __init__(self, mapping, rename):
        self.mapping = mapping      # parameter -> expression
        self.rename = rename        # local -> new name

    def visit_Name(self, node):
        if node.id in self.mapping and isinstance(node.ctx, ast.Load):
            return ast.copy_location(copy.deepcopy(self.mapping[node.id]), node)
        if node.id in self.rename:
            return ast.copy_location(ast.Name(id=self.rename[node.id], ctx=node.ctx), node)
        return node

    def visit_ExceptHandler(self, node):
        self.generic_visit(node)
        if node.name in self.rename:
            node.name = self.rename[node.name]
        return node

    def visit_Call(self, node):
        self.generic_visit(node)
        f = node.func
        # a lambda that took the place of a parameter, applied: beta-reduce
        if isinstance(f, ast.Lambda) and not node.keywords and not f.args.vararg and not f.args.kwarg and not f.args.kwonlyargs and \
                len(f.args.args) == len(node.args) and not f.args.defaults and all(_simple(a) for a in node.args):
            m = {p.arg: a for p, a in zip(f.args.args, node.args)}
            return ast.copy_location(_Subst(m, {}).visit(copy.deepcopy(f.body)), node)
        return node

    def visit_Lambda(self, node):
        shadow = {a.arg for a in node.args.args + node.args.kwonlyargs + node.args.posonlyargs}
        if shadow & (set(self.mapping) | set(self.rename)):
            inner = _Subst({k: v for k, v in self.mapping.items() if k not in shadow}, {k: v for k, v in self.rename.items() if k not in shadow})
            node.body = inner.visit(node.body)
            return node
        return self.generic_visit(node)

    def _comp(self, node):
        shadow = {n.id for g in node.generators for n in ast.walk(g.target) if isinstance(n, ast.Name)}
        clash = shadow & set(self.mapping)
        if clash:
            inner = _Subst({k: v for k, v in self.mapping.items() if k not in shadow}, self.rename)
            # the first iterable is evaluated outside the comprehension's scope
            first = self.visit(node.generators[0].iter)
            for fld, val in ast.iter_fields(node):
                if fld == 'generators':
                    for j, g in enumerate(val):
                        g.target = inner.visit(g.target)
                        g.iter = first if j == 0 else inner.visit(g.iter)
                        g.ifs = [inner.visit(x) for x in g.ifs]
                else:
                    setattr(node, fld, inner.visit(val))
            return node
        return self.generic_visit(node)

    visit_ListComp = visit_SetComp = visit_GeneratorExp = visit_DictComp = _comp


def _bind(helper_node, call, receiver, is_method):
    """parameter name -> argument expression"""
    a = helper_node.args
    if a.vararg or a.kwarg or a.posonlyargs:
        raise NotInlinable('variadic helper')
    if any(isinstance(x, ast.Starred) for x in call.args) or any(k.arg is None for k in call.keywords):
        raise NotInlinable('starred call')
    params = [x.arg for x in a.args]
    binding = {}
    rest = params
    if is_method:
        if not params:
            raise NotInlinable('method without self')
        binding[params[0]] = receiver
        rest = params[1:]
    if len(call.args) > len(rest):
        raise NotInlinable('too many arguments')
    for p, v in zip(rest, call.args):
        binding[p] = v
    kwonly = [x.arg for x in a.kwonlyargs]
    for k in call.keywords:
        if k.arg in binding or k.arg not in rest + kwonly:
            raise NotInlinable('keyword %s' % k.arg)
        binding[k.arg] = k.value
    defaults = dict(zip(reversed(params), reversed(a.defaults)))
    for p, d in zip(kwonly, a.kw_defaults):
        if d is not None:
            defaults[p] = d
    for p in rest + kwonly:
        if p not in binding:
            if p not in defaults:
                raise NotInlinable('missing argument %s' % p)
            binding[p] = defaults[p]
    return binding


def expand_call(caller_names, helper, call, form, target=None, branches=None):
    """statements replacing the call statement.  form: 'assign' (target = ast target list), 'expr', 'return', or 'test':
    the call is the condition of an `if` with the given (then, else) statement lists and the helper answers with
    constants True / False only - each `return True` becomes the then-branch, each `return False` the else-branch"""
    hn = helper.node
    if form == 'test':
        from .cfg import desugar_bool_returns
        hn = desugar_bool_returns(hn)
    if isinstance(hn, ast.AsyncFunctionDef):
        raise NotInlinable('async')
    decos = helper.decorators()
    if any(d != 'staticmethod' for d in decos):
        raise NotInlinable('decorated')
    for n in _own_walk(hn):
        if isinstance(n, (ast.Yield, ast.YieldFrom, ast.Global, ast.Nonlocal, ast.Await)):
            raise NotInlinable(type(n).__name__)
    is_method = helper.cls is not None and 'staticmethod' not in decos
    receiver = call.func.value if isinstance(call.func, ast.Attribute) else None
    binding = _bind(hn, call, receiver, is_method)
    stored = _stored_names(hn)
    has_attr_store = any(isinstance(n, (ast.Attribute, ast.Subscript)) and isinstance(n.ctx, ast.Store) for n in _own_walk(hn))
    arg_names = {n.id for v in binding.values() for n in ast.walk(v) if isinstance(n, ast.Name)}
    taken = set(caller_names) | arg_names
    if form == 'assign':
        # a local of the helper that has the name of a variable the call statement assigns anyway (and that the call does not
        # read) keeps its name: `sat, unassigned = inspect(c)` with a local `unassigned` in inspect
        overwritten = {n.id for t in target for n in ast.walk(t) if isinstance(n, ast.Name) and isinstance(n.ctx, ast.Store)}
        taken -= (overwritten - arg_names)
    rename = {}
    for nm in stored | set(binding):
        if nm in taken and not (nm in binding and isinstance(binding[nm], ast.Name) and binding[nm].id == nm and nm not in stored):
            rename[nm] = '%s__%s' % (nm, hn.name.strip('_'))
    pre = []
    mapping = {}
    # a parameter read exactly once, in a statement at the top of the helper's body (so: evaluated once, unconditionally, as
    # the argument is): any argument expression may take its place
    top_uses = {}
    for st in hn.body:
        for n in ([st] if isinstance(st, (ast.If, ast.For, ast.While, ast.Try, ast.With, ast.FunctionDef)) else ast.walk(st)):
            if isinstance(n, ast.Name) and isinstance(n.ctx, ast.Load):
                top_uses[n.id] = top_uses.get(n.id, 0) + 1
        if isinstance(st, ast.If):
            for n in ast.walk(st.test):
                if isinstance(n, ast.Name) and isinstance(n.ctx, ast.Load):
                    top_uses[n.id] = top_uses.get(n.id, 0) + 1
    all_uses = {}
    for n in ast.walk(hn):
        if isinstance(n, ast.Name) and isinstance(n.ctx, ast.Load):
            all_uses[n.id] = all_uses.get(n.id, 0) + 1
    in_scope = {id(x) for n in ast.walk(hn) if isinstance(n, (ast.Lambda, ast.ListComp, ast.SetComp, ast.DictComp, ast.GeneratorExp)) for x in ast.walk(n)}
    scoped = {n.id for n in ast.walk(hn) if isinstance(n, ast.Name) and id(n) in in_scope}
    for p, v in binding.items():
        path_ok = _simple(v) and not (isinstance(v, ast.Attribute) and has_attr_store)
        once = all_uses.get(p, 0) == 1 and top_uses.get(p, 0) == 1 and p not in scoped and not any(
            isinstance(x, (ast.Lambda, ast.Yield, ast.Await, ast.NamedExpr)) for x in ast.walk(v))
        if p not in stored and (path_ok or once):
            mapping[p] = v
        else:
            tgt = ast.Name(id=rename.get(p, p), ctx=ast.Store())
            pre.append(ast.copy_location(ast.Assign(targets=[tgt], value=copy.deepcopy(v)), call))
    rename = {k: v for k, v in rename.items() if k not in mapping}
    body = [s for s in copy.deepcopy(hn.body)]
    if body and isinstance(body[0], ast.Expr) and isinstance(body[0].value, ast.Constant) and isinstance(body[0].value.value, str):
        body = body[1:]
    sub = _Subst(mapping, rename)
    body = [sub.visit(s) for s in body]
    if form == 'return':
        return pre + body + ([] if _terminates(body) else [ast.copy_location(ast.Return(value=None), call)])

    def ret(s):
        if form == 'test':
            v = s.value
            if v is None or (isinstance(v, ast.Constant) and v.value is None):
                return copy.deepcopy(branches[1])
            if not (isinstance(v, ast.Constant) and isinstance(v.value, bool)):
                raise NotInlinable('a predicate helper that returns something other than True / False')
            return copy.deepcopy(branches[0] if v.value else branches[1]) or [ast.copy_location(ast.Pass(), s)]
        if form == 'assign':
            val = s.value if s.value is not None else ast.Constant(value=None)
            return [ast.copy_location(ast.Assign(targets=copy.deepcopy(target), value=val), s)]
        if s.value is not None and not isinstance(s.value, (ast.Constant, ast.Name)):
            return [ast.copy_location(ast.Expr(value=s.value), s)]
        return []
    if form in ('assign', 'test') and not _terminates(body):
        body = body + [ast.copy_location(ast.Return(value=None), call)]
    out = _structure(body, ret, loops_ok=form in ('assign', 'expr'))
    return pre + (out or [ast.copy_location(ast.Pass(), call)])


def _resolve(func, call):
    """FuncInfo of the helper a call names: self.m (same class or bases), module function, nested function"""
    f = call.func
    top = func
    while top.parent is not None:
        top = top.parent
    if isinstance(f, ast.Attribute) and isinstance(f.value, ast.Name) and f.value.id == 'self' and top.cls is not None:
        h = top.cls.find_method(f.attr)
        return h if h is not None and h.module is func.module else None
    if isinstance(f, ast.Name):
        g = func
        while g is not None:
            if f.id in g.nested:
                return g.nested[f.id]
            g = g.parent
        return func.module.functions.get(f.id)
    return None


def inlined(func, want, depth=2):
    """FuncInfo of `func` with the calls of helpers h for which want(h) holds expanded in place (see the module text).
    The second component lists what was expanded, the third what was wanted but does not fit."""
    done, left = [], []
    node = copy.deepcopy(func.node)
    names = {n.id for n in ast.walk(node) if isinstance(n, ast.Name)} | {a.arg for a in ast.walk(node) if isinstance(a, ast.arg)}

    tmp_count = [0]

    def hoist(s, level, stack):
        """`return self.h(a).items[k]`: the wanted call, evaluated unconditionally inside a simple statement, gets a name
        of its own in front of the statement"""
        if not isinstance(s, (ast.Assign, ast.AugAssign, ast.Expr, ast.Return)) or level >= depth:
            return []
        top = s.value
        if top is None:
            return []
        pre = []
        blocked = (ast.Lambda, ast.ListComp, ast.SetComp, ast.DictComp, ast.GeneratorExp, ast.IfExp, ast.BoolOp)

        def visit(e, is_top):
            for fld, val in ast.iter_fields(e):
                kids = val if isinstance(val, list) else [val]
                for i, k in enumerate(kids):
                    if not isinstance(k, ast.AST) or isinstance(k, blocked):
                        continue
                    visit(k, False)
                    if isinstance(k, ast.Call):
                        h = _resolve(func, k)
                        if h is not None and h.node is not func.node and h.qualname not in stack and want(h):
                            tmp_count[0] += 1
                            nm = '%s__result%d' % (h.name.strip('_'), tmp_count[0])
                            names.add(nm)
                            pre.append(ast.copy_location(ast.Assign(targets=[ast.Name(id=nm, ctx=ast.Store())], value=k), s))
                            new = ast.copy_location(ast.Name(id=nm, ctx=ast.Load()), k)
                            if isinstance(val, list):
                                val[i] = new
                            else:
                                setattr(e, fld, new)
        if isinstance(top, blocked):
            return []
        visit(top, True)
        return pre

    def block(stmts, level, stack):
        out = []
        stmts = [x for s in stmts for x in (hoist(s, level, stack) + [s])]
        for s in stmts:
            call, form, target = None, None, None
            if isinstance(s, ast.Assign) and isinstance(s.value, ast.Call):
                call, form, target = s.value, 'assign', s.targets
            elif isinstance(s, ast.Expr) and isinstance(s.value, ast.Call):
                call, form = s.value, 'expr'
            elif isinstance(s, ast.Return) and isinstance(s.value, ast.Call):
                call, form = s.value, 'return'
            branches = None
            if isinstance(s, ast.If):
                t, neg = s.test, False
                if isinstance(t, ast.UnaryOp) and isinstance(t.op, ast.Not):
                    t, neg = t.operand, True
                if isinstance(t, ast.Call):
                    call, form = t, 'test'
                    branches = (s.orelse, s.body) if neg else (s.body, s.orelse)
            h = _resolve(func, call) if call is not None else None
            if h is not None and h.node is not func.node and h.qualname not in stack and level < depth and want(h):
                try:
                    new = expand_call(names, h, call, form, target, branches)
                except NotInlinable as ex:
                    left.append((h.qualname, str(ex), s.lineno))
                else:
                    for x in new:
                        for n in ast.walk(x):
                            if isinstance(n, ast.Name):
                                names.add(n.id)
                    done.append((h.qualname, s.lineno, call))
                    out.extend(block(new, level + 1, stack + [h.qualname]))
                    continue
            for fld in ('body', 'orelse', 'finalbody'):
                sub = getattr(s, fld, None)
                if isinstance(sub, list) and sub and isinstance(sub[0], ast.stmt) and not isinstance(s, (ast.FunctionDef, ast.AsyncFunctionDef, ast.ClassDef)):
                    setattr(s, fld, block(sub, level, stack))
            for hd in getattr(s, 'handlers', []) or []:
                hd.body = block(hd.body, level, stack)
            out.append(s)
        return out
    node.body = block(node.body, 0, [func.qualname])
    if not done:
        return func, done, left
    ast.fix_missing_locations(node)
    fi = FuncInfo(func.module, node, cls=func.cls, parent=func.parent)
    # nested definitions of the rewritten body
    def index(body, parent):
        for st in body:
            if isinstance(st, (ast.FunctionDef, ast.AsyncFunctionDef)):
                g = FuncInfo(func.module, st, parent=parent)
                parent.nested[st.name] = g
                index(st.body, g)
            elif isinstance(st, (ast.If, ast.Try, ast.With, ast.For, ast.While)):
                for fld in ('body', 'orelse', 'finalbody'):
                    index(getattr(st, fld, []) or [], parent)
                for hd in getattr(st, 'handlers', []) or []:
                    index(hd.body, parent)
    index(node.body, fi)
    return fi, done, left


def contains_call(*attrs):
    """want-predicate: the helper's body has a call of one of these method / function names"""
    def want(h):
        for n in ast.walk(h.node):
            if isinstance(n, ast.Call):
                f = n.func
                nm = f.attr if isinstance(f, ast.Attribute) else (f.id if isinstance(f, ast.Name) else None)
                if nm in attrs:
                    return True
        return False
    return want
