"""Propositional content of an evaluator, read off the source.

Many step evaluators of the veriT reconstruction are pure pattern checks: they test the head connectives of
their arguments and premises, compare parts for equality, and accept (`return Thm(<clause>, ...)`) or raise.
For such an evaluator the set of accepted steps is described by the tests on the way to each accept site:
a *pattern* over unknown parts.  The accepted clause is a consequence of the premises for every step the
site accepts iff  (premises) --> (clause)  is a tautology in the unknown parts - a finite truth table.

This module is an abstract evaluator for that fragment of Python:
  values      ('atom', path) | ('const', b) | ('not', a) | ('and' | 'or' | 'imp' | 'iff', a, b) | ('ite', p, q, r),
              python lists of values, python ints (lengths, indices)
  facts       shape of a path (its head connective or constant), identification of two paths, length of an
              argument list
  statements  if / elif / else, assignments (also tuple unpacking), raise, return, for over a known list,
              assert
  tests       X.is_not() ..., logic.is_if(X), X == Y / X != Y (also against constructed terms), len(L) == n,
              X in L, not / and / or, all(.. for ..), any(.. for ..)
Anything else makes the *site* "not analysed" (never a report).  Parts are uninterpreted: an equality between
non-boolean terms is read as <--> of two unknowns, which can hide an invalid step but cannot make a valid
one look invalid (an assignment of truth values is an assignment of two distinct individuals).
Nothing of the repository is executed; the evaluator interprets the syntax tree only.
"""
import ast
import itertools

from .astutil import src
from .truthtable import fold, strip, atoms, value, show, Unsupported, numeric_atoms, ARITH

KIND_TESTS = {'is_not': 'not', 'is_conj': 'and', 'is_disj': 'or', 'is_implies': 'imp', 'is_equals': 'iff',
              'is_plus': 'plus', 'is_minus': 'minus', 'is_times': 'times', 'is_divides': 'divide', 'is_uminus': 'uminus',
              'is_less': 'less', 'is_less_eq': 'less_eq', 'is_greater': 'greater', 'is_greater_eq': 'greater_eq'}
CONST_TESTS = {'is_zero': ('num', 0), 'is_one': ('num', 1)}
# syntactic classes: the false side says nothing about the value of the part; the true side is not modelled
SYNTACTIC = {'is_constant', 'is_number', 'is_var', 'is_svar', 'is_const', 'is_comb', 'is_abs', 'is_forall', 'is_exists', 'is_bound',
             'is_nat_power', 'is_real_power', 'is_real_inverse', 'is_nat_number', 'is_frac_number', 'is_open'}
UNARY = ('not', 'uminus')
CONSTRUCTORS = {'Not': 'not', 'And': 'and', 'Or': 'or', 'Implies': 'imp', 'Eq': 'iff'}
BINARY = ('and', 'or', 'imp', 'iff', 'xor') + ARITH
MAX_STATES = 3000
SAMPLE_LENGTHS = 3      # argument lists / connective chains are explored up to this many members beyond what the code names
UNROLL = 4


class TooComplex(Exception):
    pass


class NeedFork(Exception):
    """evaluation needs a fact that no test has fixed: the statement is re-run once per alternative.
    kind 'chain': how far the chain of connective `what` goes on at path; kind 'len': the length of an argument list."""
    def __init__(self, kind, path, what=None):
        Exception.__init__(self, '%s %s %s' % (kind, path, what))
        self.kind, self.path, self.what = kind, path, what


class ListRef:
    """the argument list `root[start:]` whose length may not be known yet"""
    def __init__(self, root, start=0):
        self.root, self.start = root, start


class Case:
    def __init__(self):
        self.shape = {}
        self.same = {}
        self.lens = {}
        self.sampled = set()
        self.neg = {}         # path -> kinds it is known not to have

    def copy(self):
        c = Case()
        c.shape, c.same, c.lens, c.sampled = dict(self.shape), dict(self.same), dict(self.lens), set(self.sampled)
        c.neg = {k: set(v) for k, v in self.neg.items()}
        return c

    def is_not_kind(self, path, kind):
        return kind in self.neg.get(self.rep(path), ())

    def add_neg(self, path, kind):
        self.neg.setdefault(self.rep(path), set()).add(kind)

    def rep(self, path, depth=0):
        if depth > 20:
            return path
        best = None
        for p in self.same:
            if path == p or path.startswith(p + '.') or path.startswith(p + '['):
                if best is None or len(p) > len(best):
                    best = p
        if best is None:
            return path
        return self.rep(self.same[best] + path[len(best):], depth + 1)

    def kids(self, kind, path):
        if kind in UNARY:
            return [path + '.arg']
        if kind in BINARY:
            return [path + '.arg1', path + '.arg']
        if kind == 'ite':
            return [path + '.args[0]', path + '.args[1]', path + '.args[2]']
        return []

    def expand(self, v, depth=0):
        """re-expand the atoms of a value by what is known about their paths"""
        if isinstance(v, list):
            return [self.expand(x, depth) for x in v]
        if not isinstance(v, tuple) or depth > 12:
            return v
        if v[0] == 'atom':
            p = self.rep(v[1])
            k = self.shape.get(p)
            if k is None:
                return ('atom', p)
            if isinstance(k, tuple):
                return k
            return (k,) + tuple(self.expand(('atom', c), depth + 1) for c in self.kids(k, p))
        if v[0] == 'const':
            return v
        return (v[0],) + tuple(self.expand(x, depth + 1) for x in v[1:])

    def describe(self):
        def sh(v):
            return v if isinstance(v, str) else ('true' if v[1] else 'false')
        s = ', '.join('%s:%s' % (p, sh(k)) for p, k in sorted(self.shape.items()))
        s += ''.join(', %s=%s' % kv for kv in sorted(self.same.items()))
        s += ''.join(', len(%s)=%d' % kv for kv in sorted(self.lens.items()))
        if self.sampled:
            s += ' (explored: %s)' % ', '.join(sorted(self.sampled))
        return s


class State:
    def __init__(self, env, case, understood=True, why=None):
        self.env, self.case, self.understood, self.why = env, case, understood, why

    def fork(self, case=None, understood=None, why=None):
        return State(dict(self.env), (case or self.case).copy(), self.understood if understood is None else understood,
                     why if why is not None else self.why)


class PropEval:
    """Abstract evaluation of one evaluator function.  roots: names of the list parameters (args, prevs)."""

    def __init__(self, funcnode, roots, accept_call='Thm', identity=(), sample_arity=3):
        self.func = funcnode
        self.roots = list(roots)
        self.accept_call = accept_call
        self.identity = set(identity)
        self.sample_arity = sample_arity
        self.accepts = []     # (lineno, case, claimed value, premises [values])
        self.skipped = []     # (lineno, why)
        self.nstates = 0
        self.deeper = False

    # ------------------------------------------------------------------ expressions
    def ev(self, e, st):
        env, case = st.env, st.case
        if isinstance(e, ast.Name):
            if e.id in env:
                v = env[e.id]
                if v is None:
                    raise Unsupported('`%s` holds a value that was not understood' % e.id)
                return v
            if e.id in self.roots:
                return ListRef(e.id, 0)
            if e.id in ('true', 'false'):
                return ('const', e.id == 'true')
            if e.id == 'None':
                return None
            raise Unsupported('name `%s`' % e.id)
        if isinstance(e, ast.Constant) and isinstance(e.value, int) and not isinstance(e.value, bool):
            return e.value
        if isinstance(e, ast.UnaryOp) and isinstance(e.op, ast.USub) and isinstance(e.operand, ast.Constant) and isinstance(e.operand.value, int):
            return -e.operand.value
        if isinstance(e, ast.BinOp) and isinstance(e.op, (ast.Add, ast.Sub)):
            l, r = self.ev(e.left, st), self.ev(e.right, st)
            if isinstance(l, int) and isinstance(r, int):
                return l + r if isinstance(e.op, ast.Add) else l - r
            if isinstance(l, list) and isinstance(r, list) and isinstance(e.op, ast.Add):
                return l + r
            raise Unsupported('arithmetic `%s`' % src(e, 30))
        if isinstance(e, ast.Attribute):
            if isinstance(e.value, ast.Name) and e.value.id in ('term', 'hol_term', 'logic') and e.attr in ('true', 'false'):
                return ('const', e.attr == 'true')
            b = self.ev(e.value, st)
            a = {'lhs': 'arg1', 'rhs': 'arg'}.get(e.attr, e.attr)
            if isinstance(b, tuple) and b[0] == 'atom' and a in ('prop', 'th'):
                return ('atom', b[1] + '.prop') if a == 'prop' else b
            if isinstance(b, tuple):
                b = case.expand(b)
                if b[0] in UNARY and a == 'arg':
                    return b[1]
                if b[0] in BINARY and a in ('arg1', 'arg'):
                    return b[1] if a == 'arg1' else b[2]
                if b[0] in BINARY + ('ite',) and a == 'args':
                    return list(b[1:])
                if a == 'hyps' and b[0] == 'atom':
                    return ('hyps', b[1])
                raise Unsupported('`%s`: the connective of `%s` is not known here' % (src(e, 40), src(e.value, 30)))
            raise Unsupported('attribute `%s`' % src(e, 40))
        if isinstance(e, ast.Subscript):
            b = self.ev(e.value, st)
            if isinstance(e.slice, ast.Slice):
                lo = self.ev(e.slice.lower, st) if e.slice.lower is not None else 0
                hi = self.ev(e.slice.upper, st) if e.slice.upper is not None else None
                if e.slice.step is not None or not isinstance(lo, int) or not (hi is None or isinstance(hi, int)):
                    raise Unsupported('slice')
                if isinstance(b, ListRef):
                    n = case.lens.get(b.root)
                    if n is None:
                        if hi is None and lo >= 0:
                            return ListRef(b.root, b.start + lo)
                        raise Unsupported('slice of a list of unknown length')
                    b = [('atom', '%s[%d]' % (b.root, i)) for i in range(b.start, n)]
                if isinstance(b, list):
                    return b[lo:hi]
                raise Unsupported('slice of a non-list')
            k = self.ev(e.slice, st)
            if not isinstance(k, int):
                raise Unsupported('index `%s`' % src(e.slice, 20))
            if isinstance(b, ListRef):
                n = case.lens.get(b.root)
                if k < 0:
                    if n is None:
                        raise Unsupported('negative index into a list of unknown length')
                    k = n + k - b.start
                if n is not None and b.start + k >= n:
                    raise Unsupported('index out of the known length')
                return ('atom', '%s[%d]' % (b.root, b.start + k))
            if isinstance(b, list):
                if -len(b) <= k < len(b):
                    return b[k]
                raise Unsupported('index out of range')
            raise Unsupported('subscript of `%s`' % src(e.value, 30))
        if isinstance(e, (ast.Tuple, ast.List)):
            out = []
            for x in e.elts:
                if isinstance(x, ast.Starred):
                    out += self.as_list(self.ev(x.value, st), st)
                else:
                    out.append(self.ev(x, st))
            return out
        if isinstance(e, (ast.ListComp, ast.GeneratorExp)) and len(e.generators) == 1 and not e.generators[0].ifs:
            g = e.generators[0]
            it = self.as_list(self.ev(g.iter, st), st)
            out = []
            for x in it:
                st2 = State(dict(st.env), st.case, st.understood)
                self.bind(g.target, x, st2)
                out.append(self.ev(e.elt, st2))
            return out
        if isinstance(e, ast.Call):
            return self.ev_call(e, st)
        if isinstance(e, ast.IfExp):
            raise Unsupported('conditional expression')
        raise Unsupported('expression `%s`' % src(e, 40))

    def as_list(self, v, st):
        if isinstance(v, list):
            return v
        if isinstance(v, ListRef):
            n = st.case.lens.get(v.root)
            if n is None:
                raise NeedFork('len', v.root)
            return [('atom', '%s[%d]' % (v.root, i)) for i in range(v.start, n)]
        raise Unsupported('not a list')

    def strip_value(self, kind, v, st):
        """X.strip_conj(): flatten what is known; an operand whose connective is unknown stays one element"""
        v = st.case.expand(v)
        out = []
        while True:
            if isinstance(v, tuple) and v[0] == kind:
                out.append(v[1])
                v = v[2]
                continue
            if isinstance(v, tuple) and v[0] == 'atom' and not st.case.is_not_kind(v[1], kind):
                raise NeedFork('chain', v[1], kind)
            out.append(v)
            return out

    def ev_call(self, e, st):
        fn = e.func
        name = fn.id if isinstance(fn, ast.Name) else fn.attr if isinstance(fn, ast.Attribute) else None
        if e.keywords:
            raise Unsupported('keyword arguments in `%s`' % src(e, 30))
        plain = isinstance(fn, ast.Name) or (isinstance(fn, ast.Attribute) and isinstance(fn.value, ast.Name) and fn.value.id in ('term', 'hol_term', 'logic'))
        if name in CONSTRUCTORS and plain:
            args = self.ev(ast.List(elts=e.args, ctx=ast.Load()), st)
            kind = CONSTRUCTORS[name]
            if any(not isinstance(a, tuple) or a[0] == 'hyps' for a in args):
                raise Unsupported('operand of %s is not a term' % name)
            if kind == 'not':
                if len(args) != 1:
                    raise Unsupported('Not arity')
                return ('not', args[0])
            if kind == 'iff':
                if len(args) != 2:
                    raise Unsupported('Eq arity')
                return ('iff', args[0], args[1])
            if kind == 'imp' and len(args) < 2:
                raise Unsupported('Implies arity')
            return fold(kind, args)
        if name == 'len' and isinstance(fn, ast.Name) and len(e.args) == 1:
            v = self.ev(e.args[0], st)
            if isinstance(v, list):
                return len(v)
            if isinstance(v, ListRef):
                n = st.case.lens.get(v.root)
                if n is None:
                    raise NeedFork('len', v.root)
                return n - v.start
            raise Unsupported('len of a non-list')
        if name in ('tuple', 'list') and isinstance(fn, ast.Name) and len(e.args) == 1:
            v = self.ev(e.args[0], st)
            if isinstance(v, (list, ListRef)):
                return v
            raise Unsupported('%s() of a non-list' % name)
        if name in ('strip_conj', 'strip_disj'):
            kind = 'and' if name == 'strip_conj' else 'or'
            if isinstance(fn, ast.Attribute) and not e.args:
                return self.strip_value(kind, self.ev(fn.value, st), st)
            if len(e.args) == 1:
                return self.strip_value(kind, self.ev(e.args[0], st), st)
        if name in ('strip_disj_n', 'strip_conj_n') and isinstance(fn, ast.Name) and len(e.args) == 2:
            kind = 'or' if name == 'strip_disj_n' else 'and'
            v, n = st.case.expand(self.ev(e.args[0], st)), self.ev(e.args[1], st)
            if not isinstance(n, int) or n < 1 or not isinstance(v, tuple):
                raise Unsupported('strip_n')
            out = []
            for _ in range(n - 1):
                if v[0] == 'atom':
                    raise NeedFork('force', v[1], kind)
                if v[0] != kind:
                    raise Unsupported('strip_n of a shorter term (asserts)')
                out.append(v[1])
                v = v[2]
            return out + [v]
        if name == 'range' and isinstance(fn, ast.Name) and 1 <= len(e.args) <= 2:
            b = [self.ev(a, st) for a in e.args]
            if all(isinstance(x, int) for x in b):
                return list(range(*b))
            raise Unsupported('range')
        if name == 'expand_disj' and len(e.args) == 1:
            return self.strip_value('or', self.ev(e.args[0], st), st)
        if name in self.identity and len(e.args) == 1:
            return self.ev(e.args[0], st)
        if isinstance(fn, ast.Attribute) and name == 'head' and len(e.args) == 2:
            v = st.case.expand(self.ev(fn.value, st))
            if isinstance(v, tuple) and v[0] in BINARY:
                return (v[0], self.ev(e.args[0], st), self.ev(e.args[1], st))
        raise Unsupported('call `%s`' % src(e, 40))

    def bind(self, target, v, st):
        if isinstance(target, ast.Name):
            st.env[target.id] = v
            return
        if isinstance(target, (ast.Tuple, ast.List)) and not any(isinstance(t, ast.Starred) for t in target.elts):
            if isinstance(v, ListRef):
                n = st.case.lens.get(v.root)
                if n is None:
                    # `a, b = args` succeeds only for a list of that length (otherwise ValueError: no accept)
                    st.case.lens[v.root] = v.start + len(target.elts)
                v = self.as_list(v, st)
            if isinstance(v, tuple) and v[0] not in ('atom', 'const', 'hyps'):
                v = list(v[1:])
            if isinstance(v, list) and len(v) == len(target.elts):
                for t, x in zip(target.elts, v):
                    self.bind(t, x, st)
                return
            if isinstance(v, list):
                raise Unsupported('unpacking %d values into %d names' % (len(v), len(target.elts)))
        raise Unsupported('binding `%s`' % src(target, 30))

    # ------------------------------------------------------------------ unification (X == Y holds)
    def unify(self, a, b, case):
        """cases in which a == b holds: [] (impossible), [case'] ; raises Unsupported"""
        a, b = case.expand(a), case.expand(b)
        if isinstance(a, (list, ListRef)) or isinstance(b, (list, ListRef)):
            return self.unify_lists(a, b, case)
        if a is None or b is None or isinstance(a, int) or isinstance(b, int):
            raise Unsupported('comparison of non-terms')
        if a == b:
            return [case]
        if a[0] == 'hyps' or b[0] == 'hyps':
            raise Unsupported('comparison of hypotheses')
        if a[0] == 'atom' or b[0] == 'atom':
            if b[0] != 'atom' or (a[0] == 'atom' and len(a[1]) < len(b[1])):
                a, b = b, a
            # b is an atom: its path gets the structure of a
            p = b[1]
            if a[0] == 'atom':
                c = case.copy()
                if a[1].startswith(p + '.') or p.startswith(a[1] + '.'):
                    return []          # a term is not its own proper part
                c.same[p] = a[1]
                return [c]
            if any(x.startswith(p + '.') or x == p for x in atoms(a)):
                return []
            c = case.copy()
            if a[0] == 'const':
                c.shape[p] = a
                return [c]
            if case.is_not_kind(p, a[0]):
                return []
            c.shape[p] = a[0]
            cur = [c]
            for kid_path, kid_val in zip(c.kids(a[0], p), a[1:]):
                nxt = []
                for cc in cur:
                    nxt += self.unify(('atom', kid_path), kid_val, cc)
                cur = nxt
            return cur
        if a[0] != b[0]:
            return []
        if a[0] == 'const':
            return [case] if a[1] == b[1] else []
        cur = [case]
        for x, y in zip(a[1:], b[1:]):
            nxt = []
            for cc in cur:
                nxt += self.unify(x, y, cc)
            cur = nxt
        return cur

    def unify_lists(self, a, b, case):
        if isinstance(a, ListRef) and isinstance(b, ListRef):
            raise Unsupported('comparison of two lists of unknown length')
        for x, y in ((a, b), (b, a)):
            if isinstance(x, ListRef) and isinstance(y, list):
                n = case.lens.get(x.root)
                if n is None:
                    case = case.copy()
                    case.lens[x.root] = x.start + len(y)
                    n = x.start + len(y)
                x = [('atom', '%s[%d]' % (x.root, i)) for i in range(x.start, n)]
                a, b = x, y
                break
        if not (isinstance(a, list) and isinstance(b, list)):
            raise Unsupported('comparison of a list with a term')
        if len(a) != len(b):
            return []
        cur = [case]
        for x, y in zip(a, b):
            nxt = []
            for cc in cur:
                nxt += self.unify(x, y, cc)
            cur = nxt
        return cur

    def may_differ(self, a, b, case):
        a, b = case.expand(a), case.expand(b)
        return a != b

    # ------------------------------------------------------------------ conditions
    def cond(self, test, st, want):
        """states in which `test` evaluates to `want`; None when the test is not understood"""
        if isinstance(test, ast.UnaryOp) and isinstance(test.op, ast.Not):
            return self.cond(test.operand, st, not want)
        if isinstance(test, ast.BoolOp):
            conj = isinstance(test.op, ast.And) == want
            if conj:     # all operands must be `want`
                cur = [st]
                for v in test.values:
                    nxt = []
                    for s in cur:
                        r = self.cond(v, s, want)
                        if r is None:
                            return None
                        nxt += r
                    cur = nxt
                return cur
            # some operand is `want`: the first one that is (the earlier ones are not)
            out = []
            cur = [st]
            for v in test.values:
                nxt = []
                for s in cur:
                    r = self.cond(v, s, want)
                    if r is None:
                        return None
                    out += r
                    r2 = self.cond(v, s, not want)
                    if r2 is None:
                        return None
                    nxt += r2
                cur = nxt
            return out
        try:
            return self.atomic(test, st, want)
        except Unsupported:
            return None

    def atomic(self, test, st, want):
        case = st.case
        if isinstance(test, ast.Constant) and isinstance(test.value, bool):
            return [st] if test.value == want else []
        if isinstance(test, ast.Call) and isinstance(test.func, ast.Attribute) and not test.args and test.func.attr in CONST_TESTS:
            v = case.expand(self.ev(test.func.value, st))
            c = CONST_TESTS[test.func.attr]
            if not isinstance(v, tuple) or v[0] == 'hyps':
                raise Unsupported('test on a non-term')
            if v[0] == 'atom':
                if not want:
                    return [st]
                s = st.fork()
                s.case.shape[s.case.rep(v[1])] = c
                return [s]
            return [st] if (v == c) == want else ([st] if v[0] not in ('num',) and not want else [])
        if isinstance(test, ast.Call) and isinstance(test.func, ast.Attribute) and not test.args and test.func.attr == 'is_compares':
            v = case.expand(self.ev(test.func.value, st))
            out = []
            cur = [st]
            for kind in ('less', 'less_eq', 'greater', 'greater_eq'):
                nxt = []
                for s in cur:
                    out += self.kind_test(case.expand(v) if s is st else s.case.expand(v), kind, s, True)
                    nxt += self.kind_test(s.case.expand(v), kind, s, False)
                cur = nxt
            return out if want else cur
        if isinstance(test, ast.Call) and isinstance(test.func, ast.Attribute) and not test.args and test.func.attr in SYNTACTIC:
            self.ev(test.func.value, st)
            if not want:
                return [st]
            return [st.fork(understood=False, why=st.why or 'test `%s`, which is about the spelling of a part' % src(test, 40))]
        if isinstance(test, ast.Call) and isinstance(test.func, ast.Attribute) and not test.args and \
                (test.func.attr in KIND_TESTS or test.func.attr.startswith('is_')):
            if test.func.attr not in KIND_TESTS:
                raise Unsupported('kind test %s' % test.func.attr)
            v = case.expand(self.ev(test.func.value, st))
            kind = KIND_TESTS[test.func.attr]
            if not isinstance(v, tuple):
                raise Unsupported('kind test on a non-term')
            return self.kind_test(v, kind, st, want)
        if isinstance(test, ast.Call) and isinstance(test.func, ast.Attribute) and test.func.attr in ('is_if', 'is_xor') and len(test.args) == 1:
            v = case.expand(self.ev(test.args[0], st))
            return self.kind_test(v, 'ite' if test.func.attr == 'is_if' else 'xor', st, want)
        if isinstance(test, ast.Call) and isinstance(test.func, ast.Name) and test.func.id in ('all', 'any') and len(test.args) == 1 and \
                isinstance(test.args[0], (ast.GeneratorExp, ast.ListComp)) and len(test.args[0].generators) == 1 and not test.args[0].generators[0].ifs:
            g = test.args[0].generators[0]
            items = self.as_list(self.ev(g.iter, st), st)
            is_all = test.func.id == 'all'
            conj = is_all == want          # every element has the value `want`; otherwise: some element has it
            cur, out = [st], []
            for x in items:
                nxt = []
                for s in cur:
                    s2 = s.fork()
                    self.bind(g.target, x, s2)
                    r = self.cond(test.args[0].elt, s2, want)
                    if r is None:
                        raise Unsupported('element test')
                    if conj:
                        nxt += r
                    else:
                        r2 = self.cond(test.args[0].elt, s2, not want)
                        if r2 is None:
                            raise Unsupported('element test')
                        out += r
                        nxt += r2
                cur = nxt
            return cur if conj else out
        if isinstance(test, ast.Compare) and len(test.ops) == 1:
            op = test.ops[0]
            l, r = test.left, test.comparators[0]
            if isinstance(l, ast.Call) and isinstance(l.func, ast.Attribute) and l.func.attr == 'get_type' and src(r, 30).endswith('BoolType'):
                return [st]
            if isinstance(op, (ast.Eq, ast.NotEq)):
                eq = isinstance(op, ast.Eq) == want
                a, b = self.ev(l, st), self.ev(r, st)
                if isinstance(a, int) and isinstance(b, int):
                    return [st] if (a == b) == eq else []
                # len(root) == n with the length not yet known
                if eq:
                    return [st.fork(case=c) for c in self.unify(a, b, case)]
                if isinstance(a, (list, ListRef)) or isinstance(b, (list, ListRef)):
                    return [st]
                return [st] if self.may_differ(a, b, case) else []
            if isinstance(op, (ast.In, ast.NotIn)):
                member = isinstance(op, ast.In) == want
                a = self.ev(l, st)
                items = self.as_list(self.ev(r, st), st)
                if not member:
                    return [st]
                out = []
                for x in items:
                    out += [st.fork(case=c) for c in self.unify(a, x, case)]
                return out
            if isinstance(op, (ast.Lt, ast.LtE, ast.Gt, ast.GtE)):
                a, b = self.ev(l, st), self.ev(r, st)
                if isinstance(a, int) and isinstance(b, int):
                    res = {ast.Lt: a < b, ast.LtE: a <= b, ast.Gt: a > b, ast.GtE: a >= b}[type(op)]
                    return [st] if res == want else []
        raise Unsupported('test `%s`' % src(test, 40))

    def kind_test(self, v, kind, st, want):
        if not isinstance(v, tuple) or v[0] == 'hyps':
            raise Unsupported('kind test on a non-term')
        if v[0] == 'atom':
            known_not = st.case.is_not_kind(v[1], kind)
            if want:
                if known_not:
                    return []
                s = st.fork()
                s.case.shape[s.case.rep(v[1])] = kind
                return [s]
            if known_not:
                return [st]
            s = st.fork()
            s.case.add_neg(v[1], kind)
            return [s]
        return [st] if (v[0] == kind) == want else []

    def len_test(self, test, st, want):
        """`len(root) == n` / `!= n` when the length of root is not known: a fact instead of a decision"""
        if isinstance(test, ast.Compare) and len(test.ops) == 1 and isinstance(test.ops[0], (ast.Eq, ast.NotEq)):
            l, r = test.left, test.comparators[0]
            for a, b in ((l, r), (r, l)):
                if isinstance(a, ast.Call) and isinstance(a.func, ast.Name) and a.func.id == 'len' and len(a.args) == 1 and \
                        isinstance(a.args[0], ast.Name) and a.args[0].id in self.roots and a.args[0].id not in st.env and \
                        isinstance(b, ast.Constant) and isinstance(b.value, int):
                    root = a.args[0].id
                    eq = isinstance(test.ops[0], ast.Eq) == want
                    known = st.case.lens.get(root)
                    if known is not None:
                        return [st] if (known == b.value) == eq else []
                    if eq:
                        s = st.fork()
                        s.case.lens[root] = b.value
                        return [s]
                    return [st]       # some other length: nothing is accepted by index there without a later fact
        return None

    # ------------------------------------------------------------------ statements
    def run(self):
        st = State({}, Case())
        try:
            self.block(self.func.body, [st])
        except TooComplex:
            self.skipped.append((self.func.lineno, 'more than %d cases' % MAX_STATES))
            self.accepts = []
        return self

    def block(self, stmts, states):
        for s in stmts:
            if not states:
                return []
            self.nstates += len(states)
            if len(states) > MAX_STATES or self.nstates > 100 * MAX_STATES:
                raise TooComplex()
            nxt = []
            for st in states:
                nxt += self.stmt(s, st)
            states = nxt
        return states

    def cond_full(self, test, st, want):
        if isinstance(test, ast.UnaryOp) and isinstance(test.op, ast.Not):
            return self.cond_full(test.operand, st, not want)
        r = self.len_test(test, st, want)
        if r is not None:
            return r
        if isinstance(test, ast.BoolOp):
            conj = isinstance(test.op, ast.And) == want
            if conj:
                cur = [st]
                for v in test.values:
                    nxt = []
                    for s in cur:
                        r = self.cond_full(v, s, want)
                        if r is None:
                            return None
                        nxt += r
                    cur = nxt
                return cur
            out, cur = [], [st]
            for v in test.values:
                nxt = []
                for s in cur:
                    r = self.cond_full(v, s, want)
                    r2 = self.cond_full(v, s, not want)
                    if r is None or r2 is None:
                        return None
                    out += r
                    nxt += r2
                cur = nxt
            return out
        return self.cond(test, st, want)

    def alternatives(self, nf, st):
        """the states to explore when a statement needs a fact nothing has fixed"""
        out = []
        if nf.kind == 'len':
            root = nf.path
            idx = [int(p[len(root) + 1:].split(']')[0]) for p in list(st.case.shape) + list(st.case.same) + list(st.case.same.values()) +
                   [v[1] for v in st.env.values() if isinstance(v, tuple) and v and v[0] == 'atom'] if p.startswith(root + '[')]
            lo = max([i + 1 for i in idx] + [1])
            for n in range(lo, lo + SAMPLE_LENGTHS):
                s2 = st.fork()
                s2.case.lens[root] = n
                s2.case.sampled.add('len(%s)=%d' % (root, n))
                out.append(s2)
            return out
        if nf.kind == 'force':
            # the statement goes on only if path has connective `what` (an assertion inside a helper)
            if st.case.is_not_kind(nf.path, nf.what):
                return []
            s2 = st.fork()
            s2.case.shape[s2.case.rep(nf.path)] = nf.what
            return [s2]
        # chain of connective `what` starting at path: it ends here, after one more member, after two more
        p, kind = nf.path, nf.what
        for n in range(SAMPLE_LENGTHS):
            s2 = st.fork()
            q = p
            for _ in range(n):
                s2.case.shape[s2.case.rep(q)] = kind
                q = q + '.arg'
            s2.case.add_neg(q, kind)
            s2.case.sampled.add('%s: %d more %s-member(s)' % (p, n, kind))
            out.append(s2)
        return out

    def stmt(self, s, st, depth=0):
        try:
            return self.stmt0(s, st)
        except NeedFork as nf:
            if depth >= 6:
                return self.havoc(s, st.fork(understood=False, why=st.why or 'line %d needs more case distinctions than are explored' % s.lineno))
            out = []
            for s2 in self.alternatives(nf, st):
                out += self.stmt(s, s2, depth + 1)
                if len(out) > MAX_STATES:
                    raise TooComplex()
            return out

    def while_(self, s, st, k):
        t = self.cond_full(s.test, st, True) if st.understood else None
        f = self.cond_full(s.test, st, False) if st.understood else None
        if t is None or f is None:
            return None
        out = self.block(s.orelse, f) if s.orelse else list(f)
        for s2 in t:
            after = self.block(s.body, [s2])
            for s3 in after:
                if k + 1 >= UNROLL:
                    self.deeper = True
                    continue          # inputs on which the loop runs longer are not explored
                r = self.while_(s, s3, k + 1)
                if r is None:
                    return None
                out += r
        return out

    def stmt0(self, s, st):
        if isinstance(s, ast.While) and not any(isinstance(x, (ast.Break, ast.Continue)) for x in ast.walk(s)):
            r = self.while_(s, st, 0)
            if r is not None:
                return r
            return self.havoc(s, st)
        if isinstance(s, ast.For) and any(isinstance(x, (ast.Break, ast.Continue)) for x in ast.walk(s)):
            return self.havoc(s, st)
        if isinstance(s, ast.Expr):
            v = s.value
            if isinstance(v, ast.Constant) or (isinstance(v, ast.Call) and isinstance(v.func, ast.Name) and v.func.id == 'print'):
                return [st]          # docstrings, prints
            if isinstance(v, ast.Call) and isinstance(v.func, ast.Attribute) and v.func.attr in ('append', 'extend') and len(v.args) == 1 and \
                    isinstance(v.func.value, ast.Name) and isinstance(st.env.get(v.func.value.id), list):
                s2 = st.fork()
                try:
                    x = self.ev(v.args[0], s2)
                    if v.func.attr == 'extend':
                        x = self.as_list(x, s2)
                        s2.env[v.func.value.id] = list(s2.env[v.func.value.id]) + list(x)
                    else:
                        s2.env[v.func.value.id] = list(s2.env[v.func.value.id]) + [x]
                except Unsupported:
                    s2.env[v.func.value.id] = None
                return [s2]
            # a call for its effect: it may reject (raise) on a condition that is not modelled
            return [st.fork(understood=False, why=st.why or 'call `%s` (line %d), which can reject' % (src(v, 40), s.lineno))]
        if isinstance(s, ast.Pass):
            return [st]
        if isinstance(s, ast.Assert):
            r = self.cond_full(s.test, st, True) if st.understood else None
            if r is None:
                return [st.fork(understood=False, why='assert `%s`' % src(s.test, 40))]
            return r
        if isinstance(s, ast.If):
            t = self.cond_full(s.test, st, True) if st.understood else None
            f = self.cond_full(s.test, st, False) if st.understood else None
            if t is None or f is None:
                why = st.why or 'test `%s` (line %d)' % (src(s.test, 50), s.lineno)
                s2 = st.fork(understood=False, why=why)
                return self.block(s.body, [s2]) + self.block(s.orelse, [st.fork(understood=False, why=why)])
            return self.block(s.body, t) + self.block(s.orelse, f)
        if isinstance(s, ast.Assign) and len(s.targets) == 1:
            s2 = st.fork()
            try:
                v = self.ev(s.value, s2)
                self.bind(s.targets[0], v, s2)
            except Unsupported as ex:
                for x in ast.walk(s.targets[0]):
                    if isinstance(x, ast.Name):
                        s2.env[x.id] = None
                s2.note = str(ex)
            return [s2]
        if isinstance(s, ast.Raise):
            return []
        if isinstance(s, ast.Return):
            self.ret(s, st)
            return []
        if isinstance(s, ast.For) and not s.orelse:
            try:
                it = self.ev(s.iter, st)
                if isinstance(s.iter, ast.Call) and isinstance(s.iter.func, ast.Name) and s.iter.func.id == 'zip':
                    raise Unsupported('zip')
                items = self.as_list(it, st)
            except Unsupported:
                items = self.zip_items(s.iter, st)
            if items is None:
                return self.havoc(s, st)
            cur = [st]
            for x in items:
                nxt = []
                for c in cur:
                    c2 = c.fork()
                    try:
                        self.bind(s.target, x, c2)
                    except Unsupported:
                        return self.havoc(s, st)
                    nxt += self.block_loop(s.body, [c2])
                cur = nxt
            return cur
        return self.havoc(s, st)

    def zip_items(self, it, st):
        if isinstance(it, ast.Call) and isinstance(it.func, ast.Name) and it.func.id == 'zip' and len(it.args) == 2:
            try:
                a, b = self.ev(it.args[0], st), self.ev(it.args[1], st)
                if isinstance(a, ListRef) and isinstance(b, list) and st.case.lens.get(a.root) is None:
                    return None
                if isinstance(b, ListRef) and isinstance(a, list) and st.case.lens.get(b.root) is None:
                    return None
                a, b = self.as_list(a, st), self.as_list(b, st)
                return [[x, y] for x, y in zip(a, b)]
            except Unsupported:
                return None
        if isinstance(it, ast.Call) and isinstance(it.func, ast.Name) and it.func.id == 'enumerate' and len(it.args) == 1:
            try:
                a = self.as_list(self.ev(it.args[0], st), st)
                return [[i, x] for i, x in enumerate(a)]
            except Unsupported:
                return None
        return None

    def block_loop(self, stmts, states):
        # break / continue are not modelled: a loop body containing them is havocked by the caller
        return self.block(stmts, states)

    def havoc(self, s, st):
        """a statement that is not modelled: every name it assigns is unknown afterwards; if it can leave the function
        (return / raise inside) the rest is not analysed"""
        s2 = st.fork()
        for x in ast.walk(s):
            if isinstance(x, ast.Name) and isinstance(x.ctx, ast.Store):
                s2.env[x.id] = None
            # a list that the statement mentions may be changed in place (append, extend, item assignment)
            if isinstance(x, ast.Name) and isinstance(s2.env.get(x.id), list):
                s2.env[x.id] = None
        inner_exit = any(isinstance(x, (ast.Return, ast.Raise)) for x in ast.walk(s))
        for r in [x for x in ast.walk(s) if isinstance(x, ast.Return)]:
            if self.is_accept(r):
                self.skipped.append((r.lineno, 'inside `%s ...` (line %d), which is not modelled' % (src(s, 30), s.lineno)))
        if inner_exit:
            s2.understood = False
            s2.why = st.why or 'statement `%s` (line %d) can reject on a condition that is not modelled' % (src(s, 30), s.lineno)
        return [s2]

    def is_accept(self, r):
        return r.value is not None and isinstance(r.value, ast.Call) and isinstance(r.value.func, ast.Name) and r.value.func.id == self.accept_call

    def ret(self, s, st):
        if not self.is_accept(s):
            return
        if not st.understood:
            self.skipped.append((s.lineno, 'reached under ' + (st.why or 'a condition that is not a test of connectives')))
            return
        call = s.value
        try:
            if not call.args:
                raise Unsupported('no clause')
            claimed = self.ev(call.args[0], st)
            if not isinstance(claimed, tuple) or claimed[0] == 'hyps':
                raise Unsupported('the clause is not a term')
            claimed = st.case.expand(claimed)
            prem = []
            n = st.case.lens.get('prevs')
            seen = set()
            for p in list(st.case.shape) + list(st.case.same) + list(st.case.same.values()) + sorted(atoms(claimed)):
                if p.startswith('prevs['):
                    k = p[len('prevs['):].split(']')[0]
                    seen.add(int(k))
            for k in sorted(seen | set(range(n or 0))):
                prem.append(st.case.expand(('atom', 'prevs[%d].prop' % k)))
            self.accepts.append((s.lineno, st.case, claimed, prem))
        except Unsupported as ex:
            self.skipped.append((s.lineno, str(ex)))


NUM_DOMAIN = (-2, -1, 0, 1, 2)


def counterexample(claimed, premises, max_rows=200000):
    """an assignment under which every premise holds and the clause does not; None if there is none;
    'too-many' when the table is larger than max_rows.  Parts that occur as operands of arithmetic or comparisons
    range over a few small integers (a counterexample there is a counterexample over the integers and the reals),
    the others over the two truth values."""
    names = sorted(atoms(claimed).union(*[atoms(p) for p in premises]))
    num = numeric_atoms([claimed] + list(premises))
    domains = [NUM_DOMAIN if n in num else (False, True) for n in names]
    rows = 1
    for d in domains:
        rows *= len(d)
    if rows > max_rows:
        return 'too-many'
    for bits in itertools.product(*domains):
        sigma = dict(zip(names, bits))
        try:
            if all(value(p, sigma) for p in premises) and not value(claimed, sigma):
                return sigma
        except (TypeError, ValueError, ZeroDivisionError):
            return 'ill-typed'
    return None
