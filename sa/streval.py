"""Bracket decisions of a small `__str__`, read off by abstract evaluation.

The printer of an operator node decides, for each operand, whether to write brackets - as a function of the operator,
the side, and the operand's class and priority.  All of these range over small finite sets, so the decision function is
a table.  This module evaluates the syntax tree of the method for one row of that table: `self.op` is a given token,
the operands are placeholders with a given class and priority, str(operand) is a marker string.  The result is the
string the method would return; an operand is bracketed iff its marker appears as `(marker)`.

Supported: if / elif / else, assignments, return, nested helper functions and lambdas (closures), comparisons, and / or /
not, conditional expressions, `+` and `%` on strings, tuples, isinstance on the placeholder classes, len(self.args),
self.args[i], self.op, self.priority() and <operand>.priority().  Anything else raises Unsupported (the caller reports
an analysis error: the printer is no longer in the fragment the model can read)."""
import ast

from .astutil import src


class Unsupported(Exception):
    pass


class Operand:
    def __init__(self, marker, cls, prio):
        self.marker, self.cls, self.prio = marker, cls, prio


class Closure:
    def __init__(self, node, env):
        self.node, self.env = node, env


class _Return(Exception):
    def __init__(self, v):
        self.v = v


class StrEval:
    def __init__(self, funcnode, op, operands, own_priority, classes, globals_=None):
        self.func = funcnode
        self.op, self.operands, self.p = op, operands, own_priority
        self.classes = classes            # names that denote classes (for isinstance)
        self.globals = globals_ or {}

    def run(self):
        env = {}
        try:
            self.block(self.func.body, env)
        except _Return as r:
            return r.v
        raise Unsupported('no return')

    def block(self, stmts, env):
        for s in stmts:
            if isinstance(s, ast.Expr) and isinstance(s.value, ast.Constant):
                continue
            if isinstance(s, ast.FunctionDef):
                env[s.name] = Closure(s, env)
                continue
            if isinstance(s, ast.If):
                self.block(s.body if self.ev(s.test, env) else s.orelse, env)
                continue
            if isinstance(s, ast.Assign) and len(s.targets) == 1:
                v = self.ev(s.value, env)
                t = s.targets[0]
                if isinstance(t, ast.Name):
                    env[t.id] = v
                    continue
                if isinstance(t, (ast.Tuple, ast.List)) and isinstance(v, (list, tuple)) and len(v) == len(t.elts) and all(isinstance(x, ast.Name) for x in t.elts):
                    for x, y in zip(t.elts, v):
                        env[x.id] = y
                    continue
                raise Unsupported('assignment `%s`' % src(s, 40))
            if isinstance(s, ast.Return):
                raise _Return(self.ev(s.value, env) if s.value is not None else None)
            if isinstance(s, ast.Raise):
                raise Unsupported('raises')
            raise Unsupported('statement `%s`' % src(s, 40))

    def call(self, f, args):
        if isinstance(f, Closure):
            n = f.node
            ps = [a.arg for a in n.args.args]
            if len(ps) != len(args):
                raise Unsupported('arity')
            env = dict(f.env)
            env.update(zip(ps, args))
            if isinstance(n, ast.Lambda):
                return self.ev(n.body, env)
            try:
                self.block(n.body, env)
            except _Return as r:
                return r.v
            return None
        raise Unsupported('call of a non-function')

    def ev(self, e, env):
        if isinstance(e, ast.Constant):
            return e.value
        if isinstance(e, ast.Name):
            if e.id in env:
                return env[e.id]
            if e.id in self.globals:
                return self.globals[e.id]
            if e.id in self.classes:
                return ('class', e.id)
            if e.id in ('True', 'False'):
                return e.id == 'True'
            raise Unsupported('name `%s`' % e.id)
        if isinstance(e, ast.Lambda):
            return Closure(e, env)
        if isinstance(e, (ast.Tuple, ast.List)):
            return tuple(self.ev(x, env) for x in e.elts)
        if isinstance(e, ast.Attribute):
            if isinstance(e.value, ast.Name) and e.value.id == 'self' and 'self' not in env:
                if e.attr == 'op':
                    return self.op
                if e.attr == 'args':
                    return tuple(self.operands)
            raise Unsupported('attribute `%s`' % src(e, 40))
        if isinstance(e, ast.Subscript):
            b, k = self.ev(e.value, env), self.ev(e.slice, env)
            try:
                return b[k]
            except Exception:
                raise Unsupported('subscript `%s`' % src(e, 40))
        if isinstance(e, ast.BoolOp):
            v = None
            for x in e.values:
                v = self.ev(x, env)
                if isinstance(e.op, ast.And) and not v:
                    return v
                if isinstance(e.op, ast.Or) and v:
                    return v
            return v
        if isinstance(e, ast.UnaryOp) and isinstance(e.op, ast.Not):
            return not self.ev(e.operand, env)
        if isinstance(e, ast.IfExp):
            return self.ev(e.body, env) if self.ev(e.test, env) else self.ev(e.orelse, env)
        if isinstance(e, ast.Compare) and len(e.ops) == 1:
            a, b = self.ev(e.left, env), self.ev(e.comparators[0], env)
            op = e.ops[0]
            try:
                return {ast.Eq: lambda: a == b, ast.NotEq: lambda: a != b, ast.Lt: lambda: a < b, ast.LtE: lambda: a <= b, ast.Gt: lambda: a > b,
                        ast.GtE: lambda: a >= b, ast.In: lambda: a in b, ast.NotIn: lambda: a not in b}[type(op)]()
            except (KeyError, TypeError):
                raise Unsupported('comparison `%s`' % src(e, 40))
        if isinstance(e, ast.BinOp) and isinstance(e.op, (ast.Add, ast.Mod)):
            a, b = self.ev(e.left, env), self.ev(e.right, env)
            try:
                return a + b if isinstance(e.op, ast.Add) else a % b
            except TypeError:
                raise Unsupported('string operation `%s`' % src(e, 40))
        if isinstance(e, ast.JoinedStr):
            out = ''
            for v in e.values:
                out += v.value if isinstance(v, ast.Constant) else str(self.ev(v.value, env))
            return out
        if isinstance(e, (ast.ListComp, ast.GeneratorExp)) and len(e.generators) == 1 and not e.generators[0].is_async:
            g = e.generators[0]
            seq = self.ev(g.iter, env)
            if not isinstance(seq, (tuple, list)):
                raise Unsupported('comprehension over `%s`' % src(g.iter, 40))
            out = []
            for item in seq:
                env2 = dict(env)
                if isinstance(g.target, ast.Name):
                    env2[g.target.id] = item
                elif isinstance(g.target, (ast.Tuple, ast.List)) and isinstance(item, (tuple, list)) and len(item) == len(g.target.elts) and \
                        all(isinstance(x, ast.Name) for x in g.target.elts):
                    env2.update({x.id: y for x, y in zip(g.target.elts, item)})
                else:
                    raise Unsupported('comprehension target `%s`' % src(g.target, 40))
                if all(self.ev(c, env2) for c in g.ifs):
                    out.append(self.ev(e.elt, env2))
            return tuple(out)
        if isinstance(e, ast.Call):
            fn = e.func
            if e.keywords:
                raise Unsupported('keywords')
            if isinstance(fn, ast.Name) and fn.id in ('zip', 'list', 'tuple', 'reversed', 'enumerate') and fn.id not in env and e.args:
                vals = [self.ev(a, env) for a in e.args]
                if not all(isinstance(v, (tuple, list)) for v in vals):
                    raise Unsupported('`%s` of something that is not a written-out sequence' % fn.id)
                if fn.id == 'zip':
                    return tuple(zip(*vals))
                if len(vals) != 1:
                    raise Unsupported('arity of `%s`' % fn.id)
                return {'list': tuple, 'tuple': tuple, 'reversed': lambda v: tuple(reversed(v)), 'enumerate': lambda v: tuple(enumerate(v))}[fn.id](vals[0])
            if isinstance(fn, ast.Name) and fn.id == 'str' and len(e.args) == 1:
                v = self.ev(e.args[0], env)
                return v.marker if isinstance(v, Operand) else str(v)
            if isinstance(fn, ast.Name) and fn.id == 'len' and len(e.args) == 1:
                return len(self.ev(e.args[0], env))
            if isinstance(fn, ast.Name) and fn.id == 'isinstance' and len(e.args) == 2:
                v, c = self.ev(e.args[0], env), self.ev(e.args[1], env)
                cs = c if isinstance(c, tuple) and c and isinstance(c[0], tuple) else (c,)
                if isinstance(v, Operand) and all(isinstance(x, tuple) and x[0] == 'class' for x in cs):
                    return v.cls in [x[1] for x in cs]
                raise Unsupported('isinstance')
            if isinstance(fn, ast.Attribute) and fn.attr == 'priority' and not e.args:
                if isinstance(fn.value, ast.Name) and fn.value.id == 'self' and 'self' not in env:
                    return self.p
                v = self.ev(fn.value, env)
                if isinstance(v, Operand):
                    return v.prio
                raise Unsupported('priority of a non-operand')
            if isinstance(fn, ast.Attribute) and fn.attr == 'join' and len(e.args) == 1:
                sep, xs = self.ev(fn.value, env), self.ev(e.args[0], env)
                return sep.join(xs)
            if isinstance(fn, ast.Name) and fn.id in env:
                return self.call(env[fn.id], [self.ev(a, env) for a in e.args])
            raise Unsupported('call `%s`' % src(e, 40))
        raise Unsupported('expression `%s`' % src(e, 40))


def bracket_decision(funcnode, op, n_operands, which, operand_cls, operand_prio, own_prio, classes):
    """True / False: is operand `which` of the node `op` written in brackets?"""
    ops = [Operand('\\x01%d\\x02' % i, operand_cls if i == which else 'Atom', operand_prio if i == which else 10 ** 6) for i in range(n_operands)]
    out = StrEval(funcnode, op, ops, own_prio, classes).run()
    if not isinstance(out, str):
        raise Unsupported('the printer does not return a string')
    m = '\\x01%d\\x02' % which
    if m not in out:
        raise Unsupported('the operand is not printed')
    return '(' + m + ')' in out
