"""Interprocedural must-pass-through guards.

`GuardQuery(repo, atom)` answers: on every path of function F to node N, has a test established the
guard described by `atom` about a value derived from a tracked parameter?  A test that is a call to
another repository function counts when every possibly-true return of that callee is itself guarded
(followed to a bounded depth), so `assert self.can_eval(goal)` inherits the guards inside can_eval.
"""
import ast

from .cfg import cfg_of
from .flow import flow_of, path_base
from .astutil import is_name


def tracked_names(funcnode, param):
    """param plus the local names whose value may derive from it"""
    flow = flow_of(funcnode)
    names = {param}
    for nm in flow.defs:
        if any(path_base(p) == param for p in flow.resolve(ast.Name(id=nm, ctx=ast.Load()))):
            names.add(nm)
    return names


def derives_from(expr, tracked):
    """the receiver expression is (an attribute / subscript / call chain on) a tracked name"""
    e = expr
    while True:
        if isinstance(e, ast.Attribute):
            e = e.value
        elif isinstance(e, ast.Subscript):
            e = e.value
        elif isinstance(e, ast.Call) and isinstance(e.func, ast.Attribute):
            e = e.func.value
        else:
            break
    return isinstance(e, ast.Name) and e.id in tracked


def _is_falsy_const(v):
    return v is None or (isinstance(v, ast.Constant) and v.value in (False, None, 0))


class GuardQuery:
    def __init__(self, repo, atom, max_depth=3):
        self.repo = repo
        self.atom = atom          # atom(expr, polarity, tracked_names, flow) -> bool
        self.max_depth = max_depth
        self._memo = {}
        self.visited = []         # (function key, what) for evidence

    # -------------------------------------------------------------- edges
    def establishing_edges(self, func, tracked, depth=None):
        depth = self.max_depth if depth is None else depth
        cfg = cfg_of(func.node)
        flow = flow_of(func.node)
        edges = set()
        for n in cfg.test_nodes():
            for pol, label in ((True, 'true'), (False, 'false')):
                if self.atom(n.ast, pol, tracked, flow):
                    edges.add((n.id, label))
            if depth > 0 and isinstance(n.ast, ast.Call):
                for callee, cparam in self._tracked_callees(func, n.ast, tracked):
                    if self.truthy_returns_guarded(callee, cparam, depth - 1):
                        edges.add((n.id, 'true'))
        return edges

    def _tracked_callees(self, func, call, tracked):
        """(callee FuncInfo, callee parameter receiving a tracked value)"""
        res = []
        for callee in self.repo.resolve_call(func, call):
            params = callee.params()
            offset = 1 if (callee.cls is not None and params and params[0] in ('self', 'cls')
                           and 'staticmethod' not in callee.decorators()) else 0
            for i, a in enumerate(call.args):
                if derives_from(a, tracked) and i + offset < len(params):
                    res.append((callee, params[i + offset]))
            for k in call.keywords:
                if k.arg in params and derives_from(k.value, tracked):
                    res.append((callee, k.arg))
        return res

    # -------------------------------------------------------------- returns
    def truthy_returns_guarded(self, func, param, depth):
        key = (id(func), param, depth)
        if key in self._memo:
            return self._memo[key]
        self._memo[key] = False       # recursion: not guarded until shown
        cfg = cfg_of(func.node)
        flow = flow_of(func.node)
        tracked = tracked_names(func.node, param)
        est = self.establishing_edges(func, tracked, depth)
        ok = True
        rets = [r for r in cfg.return_nodes() if not _is_falsy_const(r.ast.value)]
        if not rets:
            ok = False
        for r in rets:
            if cfg.path_avoiding(r, skip_edges=est) is None:
                continue
            # tail call: `return g(x)` or `res = g(x); return res`
            v = r.ast.value
            if isinstance(v, ast.Name) and flow.is_local(v.id):
                defs = flow.defs[v.id]
                if len(defs) == 1 and defs[0][0] == 'value':
                    v = defs[0][1]
            tail_ok = False
            if isinstance(v, ast.Call) and depth > 0:
                cs = self._tracked_callees(func, v, tracked)
                tail_ok = bool(cs) and all(self.truthy_returns_guarded(c, p, depth - 1) for c, p in cs)
            if isinstance(v, ast.BoolOp) and isinstance(v.op, ast.And) and depth > 0:
                # `return a and b`: guarded if some conjunct is a guarded call or an establishing atom
                for conj in v.values:
                    if self.atom(conj, True, tracked, flow):
                        tail_ok = True
                    if isinstance(conj, ast.Call):
                        cs = self._tracked_callees(func, conj, tracked)
                        if cs and all(self.truthy_returns_guarded(c, p, depth - 1) for c, p in cs):
                            tail_ok = True
            if not tail_ok:
                ok = False
        self.visited.append((func.key, param, ok))
        self._memo[key] = ok
        return ok

    # -------------------------------------------------------------- main query
    def unguarded_targets(self, func, param, targets):
        """targets (CFG nodes of func) reachable from entry without passing an establishing edge"""
        cfg = cfg_of(func.node)
        tracked = tracked_names(func.node, param)
        est = self.establishing_edges(func, tracked)
        bad = []
        for t in targets:
            p = cfg.path_avoiding(t, skip_edges=est)
            if p is not None:
                bad.append((t, p))
        return bad, est
