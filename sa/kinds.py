"""Kind-case analysis: prune a CFG under the assumption that a given receiver is a term (or type)
of one constructor kind, so that `if t.is_svar(): ... elif t.is_var(): ...` dispatch chains can be
read branch by branch."""
import ast

from .astutil import compare_parts

TERM_KINDS = ['svar', 'var', 'const', 'comb', 'abs', 'bound']
TERM_CONSTS = {'SVAR': 'svar', 'VAR': 'var', 'CONST': 'const', 'COMB': 'comb', 'ABS': 'abs', 'BOUND': 'bound'}
TYPE_KINDS = ['stvar', 'tvar', 'tconst']
TYPE_CONSTS = {'STVAR': 'stvar', 'TVAR': 'tvar', 'TCONST': 'tconst'}


def _ty_receiver(a, recv_pred, flow):
    """a is `<receiver>.ty` for an accepted receiver - directly, or a local name whose only definition is that"""
    if isinstance(a, ast.Attribute) and a.attr == 'ty' and recv_pred(a.value):
        return True
    if flow is not None and isinstance(a, ast.Name):
        try:
            paths = flow.resolve(a)
        except RecursionError:      # pragma: no cover
            return False
        if len(paths) == 1:
            p = next(iter(paths))
            if p.endswith('.ty') and '.' not in p[:-3] and '[' not in p and '(' not in p:
                return recv_pred(ast.Name(id=p[:-3], ctx=ast.Load()))
    return False


def kind_test(expr, recv_pred, kinds=TERM_KINDS, consts=TERM_CONSTS, flow=None):
    """If expr is an atomic kind test on a receiver accepted by recv_pred, return
    (kind, exact) where exact=False means 'True only if kind, but may be False for that kind'
    (e.g. is_const('foo'), is_comb('plus', 2)).  Otherwise None."""
    if isinstance(expr, ast.Call) and isinstance(expr.func, ast.Attribute) and \
            expr.func.attr.startswith('is_') and expr.func.attr[3:] in kinds and recv_pred(expr.func.value):
        return expr.func.attr[3:], not (expr.args or expr.keywords)
    cp = compare_parts(expr)
    if cp and cp[0] in (ast.Eq, ast.NotEq):
        for a, b in ((cp[1], cp[2]), (cp[2], cp[1])):
            if _ty_receiver(a, recv_pred, flow):
                nm = b.attr if isinstance(b, ast.Attribute) else (b.id if isinstance(b, ast.Name) else None)
                if nm in consts:
                    return consts[nm], True
    return None


def infeasible_edges(cfg, recv_pred, kind, kinds=TERM_KINDS, consts=TERM_CONSTS, flow=None):
    """Edges that cannot be taken when every receiver accepted by recv_pred has the given kind."""
    if flow is None:
        from .flow import flow_of
        try:
            flow = flow_of(cfg.func)
        except Exception:      # pragma: no cover
            flow = None
    skip = set()
    for n in cfg.test_nodes():
        kt = kind_test(n.ast, recv_pred, kinds, consts, flow)
        if kt is None:
            continue
        k, exact = kt
        negated = False
        cp = compare_parts(n.ast)
        if cp and cp[0] is ast.NotEq:
            negated = True
        if k == kind:
            if exact:
                skip.add((n.id, 'true' if negated else 'false'))
        else:
            skip.add((n.id, 'false' if negated else 'true'))
    return skip


def has_kind_tests(cfg, recv_pred, kinds=TERM_KINDS, consts=TERM_CONSTS):
    return [n for n in cfg.test_nodes() if kind_test(n.ast, recv_pred, kinds, consts)]
