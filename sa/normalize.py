"""Source-to-source normal forms, applied to a copy of a function before a rule reads it.

A rule about the branches of a function ("every kind has a branch", "the handler is reached whenever the kind test
holds") is stated over `if` chains.  The same program can be written with a table of handlers:

    handlers = {Extension.THEOREM: f, Extension.CONSTANT: g}
    if ext.ty not in handlers: raise ..
    handlers[ext.ty](ext)

`dispatch_to_branches` rewrites that into the chain it abbreviates (`if ext.ty == Extension.THEOREM: f(ext) elif ..
else: raise KeyError`), and `ext.ty == Extension.THEOREM` into the predicate method that is defined as exactly this
comparison (`ext.is_theorem()`), read from the class.  Nothing is executed; a table that is not a literal dictionary
assigned once to a local (or that is modified anywhere) is left alone, and the rule then sees what it saw before.
"""
import ast
import copy

from .repo import dotted


def kind_predicates(cls):
    """{(attribute, constant's last name): predicate method} for methods `def is_x(self): return self.<attr> == C.X`"""
    out = {}
    for name, f in cls.methods.items():
        body = [s for s in f.node.body if not (isinstance(s, ast.Expr) and isinstance(s.value, ast.Constant))]
        if len(body) == 1 and isinstance(body[0], ast.Return) and isinstance(body[0].value, ast.Compare) and len(body[0].value.ops) == 1 and \
                isinstance(body[0].value.ops[0], ast.Eq) and not f.node.args.args[1:]:
            l, r = body[0].value.left, body[0].value.comparators[0]
            for a, b in ((l, r), (r, l)):
                if isinstance(a, ast.Attribute) and isinstance(a.value, ast.Name) and a.value.id == 'self' and dotted(b):
                    out[(a.attr, dotted(b).split('.')[-1])] = name
    return out


def dispatch_to_branches(funcnode, predicates=None):
    """(copy of funcnode with table dispatch written as branches, number of rewritten sites)"""
    predicates = predicates or {}
    new = copy.deepcopy(funcnode)
    # local tables: name -> Dict literal, assigned exactly once and never stored into / updated
    cands, spoiled = {}, set()
    for n in ast.walk(new):
        if isinstance(n, ast.Assign):
            for t in n.targets:
                if isinstance(t, ast.Name):
                    if isinstance(n.value, ast.Dict) and all(k is not None for k in n.value.keys) and t.id not in cands:
                        cands[t.id] = n.value
                    else:
                        spoiled.add(t.id)
                elif isinstance(t, ast.Subscript) and isinstance(t.value, ast.Name):
                    spoiled.add(t.value.id)
        elif isinstance(n, (ast.AugAssign, ast.AnnAssign)) and isinstance(n.target, ast.Name):
            spoiled.add(n.target.id)
        elif isinstance(n, ast.Call) and isinstance(n.func, ast.Attribute) and isinstance(n.func.value, ast.Name) and \
                n.func.attr in ('update', 'pop', 'setdefault', 'clear', 'popitem', '__setitem__'):
            spoiled.add(n.func.value.id)
        elif isinstance(n, ast.Delete):
            for t in n.targets:
                if isinstance(t, ast.Subscript) and isinstance(t.value, ast.Name):
                    spoiled.add(t.value.id)
    tables = {k: v for k, v in cands.items() if k not in spoiled}
    if not tables:
        return funcnode, 0
    count = [0]

    def eq(subject, key, at):
        # subject == key, as the predicate method when the class defines one as this comparison
        if isinstance(subject, ast.Attribute) and dotted(key) and (subject.attr, dotted(key).split('.')[-1]) in predicates:
            call = ast.Call(func=ast.Attribute(value=copy.deepcopy(subject.value), attr=predicates[(subject.attr, dotted(key).split('.')[-1])], ctx=ast.Load()),
                            args=[], keywords=[])
            return ast.copy_location(call, at)
        return ast.copy_location(ast.Compare(left=copy.deepcopy(subject), ops=[ast.Eq()], comparators=[copy.deepcopy(key)]), at)

    class Tests(ast.NodeTransformer):
        def visit_Compare(self, node):
            self.generic_visit(node)
            if len(node.ops) == 1 and isinstance(node.ops[0], (ast.In, ast.NotIn)) and isinstance(node.comparators[0], ast.Name) and \
                    node.comparators[0].id in tables:
                d = tables[node.comparators[0].id]
                count[0] += 1
                alt = ast.copy_location(ast.BoolOp(op=ast.Or(), values=[eq(node.left, k, node) for k in d.keys]), node) if len(d.keys) > 1 else \
                    (eq(node.left, d.keys[0], node) if d.keys else ast.copy_location(ast.Constant(value=False), node))
                if isinstance(node.ops[0], ast.NotIn):
                    return ast.copy_location(ast.UnaryOp(op=ast.Not(), operand=alt), node)
                return alt
            return node

    def chain(stmt, call, wrap):
        """if-chain for `table[subject](args..)`; wrap(call expr) -> statement"""
        d = tables[call.func.value.id]
        subject = call.func.slice
        orelse = [ast.copy_location(ast.Raise(exc=ast.Call(func=ast.Name(id='KeyError', ctx=ast.Load()), args=[copy.deepcopy(subject)], keywords=[]),
                                              cause=None), stmt)]
        for k, v in reversed(list(zip(d.keys, d.values))):
            c = ast.copy_location(ast.Call(func=copy.deepcopy(v), args=copy.deepcopy(call.args), keywords=copy.deepcopy(call.keywords)), stmt)
            orelse = [ast.copy_location(ast.If(test=eq(subject, k, stmt), body=[wrap(c)], orelse=orelse), stmt)]
        count[0] += 1
        return orelse

    def is_dispatch(e):
        return isinstance(e, ast.Call) and isinstance(e.func, ast.Subscript) and isinstance(e.func.value, ast.Name) and e.func.value.id in tables

    def block(stmts):
        out = []
        for s in stmts:
            if isinstance(s, (ast.FunctionDef, ast.AsyncFunctionDef, ast.ClassDef)):
                out.append(s)
                continue
            if isinstance(s, ast.Expr) and is_dispatch(s.value):
                out.extend(chain(s, s.value, lambda c, s=s: ast.copy_location(ast.Expr(value=c), s)))
                continue
            if isinstance(s, ast.Return) and is_dispatch(s.value):
                out.extend(chain(s, s.value, lambda c, s=s: ast.copy_location(ast.Return(value=c), s)))
                continue
            if isinstance(s, ast.Assign) and is_dispatch(s.value):
                out.extend(chain(s, s.value, lambda c, s=s: ast.copy_location(ast.Assign(targets=copy.deepcopy(s.targets), value=c), s)))
                continue
            for fld in ('body', 'orelse', 'finalbody'):
                sub = getattr(s, fld, None)
                if isinstance(sub, list) and sub and isinstance(sub[0], ast.stmt):
                    setattr(s, fld, block(sub))
            for h in getattr(s, 'handlers', []) or []:
                h.body = block(h.body)
            out.append(s)
        return out
    new.body = block(new.body)
    new = Tests().visit(new)
    if not count[0]:
        return funcnode, 0
    ast.fix_missing_locations(new)
    return new, count[0]


def as_func(func, node):
    """FuncInfo for a rewritten copy of func's node (nested definitions re-indexed)"""
    from .repo import FuncInfo
    if node is func.node:
        return func
    fi = FuncInfo(func.module, node, cls=func.cls, parent=func.parent)

    def index(body, parent):
        for st in body:
            if isinstance(st, (ast.FunctionDef, ast.AsyncFunctionDef)):
                g = FuncInfo(func.module, st, parent=parent)
                parent.nested[st.name] = g
                index(st.body, g)
            elif isinstance(st, (ast.If, ast.Try, ast.With, ast.For, ast.While)):
                for fld in ('body', 'orelse', 'finalbody'):
                    index(getattr(st, fld, []) or [], parent)
                for hd in getattr(st, 'handlers', []) or []:
                    index(hd.body, parent)
    index(node.body, fi)
    return fi


class _FoldConstantConditions(ast.NodeTransformer):
    """conditional expressions and `if` statements whose test is a literal True / False (after a loop variable was replaced by a row of
    a written-out table) are replaced by the branch that is taken"""

    def visit_IfExp(self, node):
        self.generic_visit(node)
        if isinstance(node.test, ast.Constant) and isinstance(node.test.value, bool):
            return node.body if node.test.value else node.orelse
        return node

    def visit_If(self, node):
        self.generic_visit(node)
        if isinstance(node.test, ast.Constant) and isinstance(node.test.value, bool):
            return (node.body if node.test.value else node.orelse) or [ast.copy_location(ast.Pass(), node)]
        return node


def unroll_literal_loops(funcnode, max_elems=8):
    """A copy of the function in which `for x in (A, B): body` - the iterable a tuple / list written out, directly or as a
    local assigned once - is replaced by body[x := A]; body[x := B].  Only loops whose body neither assigns x nor
    contains break / continue / else are unrolled.  Returns funcnode itself if there is nothing to unroll."""
    from .flow import LocalFlow
    flow = LocalFlow(funcnode)
    new = copy.deepcopy(funcnode)
    count = [0]

    class Sub(ast.NodeTransformer):
        def __init__(self, name, value):
            self.name, self.value = name, value

        def visit_Name(self, node):
            if node.id == self.name and isinstance(node.ctx, ast.Load):
                return ast.copy_location(copy.deepcopy(self.value), node)
            return node

    def block(stmts):
        out = []
        for s in stmts:
            if isinstance(s, (ast.FunctionDef, ast.AsyncFunctionDef, ast.ClassDef)):
                out.append(s)
                continue
            for fld in ('body', 'orelse', 'finalbody'):
                sub = getattr(s, fld, None)
                if isinstance(sub, list) and sub and isinstance(sub[0], ast.stmt):
                    setattr(s, fld, block(sub))
            for h in getattr(s, 'handlers', []) or []:
                h.body = block(h.body)
            tnames = [s.target.id] if isinstance(s, ast.For) and isinstance(s.target, ast.Name) else (
                [e.id for e in s.target.elts] if isinstance(s, ast.For) and isinstance(s.target, (ast.Tuple, ast.List)) and
                all(isinstance(e, ast.Name) for e in s.target.elts) else None)
            if tnames and not s.orelse:
                it = flow.inline(s.iter)
                inner = [n for st in s.body for n in ast.walk(st)]
                rows_ok = isinstance(it, (ast.Tuple, ast.List)) and 0 < len(it.elts) <= max_elems and not any(isinstance(e, ast.Starred) for e in it.elts) and (
                    isinstance(s.target, ast.Name) or all(isinstance(e, (ast.Tuple, ast.List)) and len(e.elts) == len(tnames) and
                                                          not any(isinstance(x, ast.Starred) for x in e.elts) for e in it.elts))
                if rows_ok and not any(isinstance(n, (ast.Break, ast.Continue)) for n in inner) and \
                        not any(isinstance(n, ast.Name) and n.id in tnames and isinstance(n.ctx, (ast.Store, ast.Del)) for n in inner):
                    for e in it.elts:
                        vals = [e] if isinstance(s.target, ast.Name) else list(e.elts)
                        for st in s.body:
                            st2 = copy.deepcopy(st)
                            for nm, v in zip(tnames, vals):
                                st2 = Sub(nm, v).visit(st2)
                            st2 = _FoldConstantConditions().visit(st2)
                            out.extend(st2 if isinstance(st2, list) else [st2])
                    count[0] += 1
                    continue
            out.append(s)
        return out
    new.body = block(new.body)
    if not count[0]:
        return funcnode
    ast.fix_missing_locations(new)
    return new


def conditional_expressions_as_branches(funcnode):
    """A copy of the function in which `return A if c else B` is written `if c: return A` / `else: return B`, and the same for
    a plain assignment `x = A if c else B`.  Returns funcnode itself when there is none."""
    count = [0]

    class T(ast.NodeTransformer):
        def visit_FunctionDef(self, node):
            self.generic_visit(node)
            return node

        def visit_Lambda(self, node):
            return node

        def visit_Return(self, node):
            v = node.value
            if isinstance(v, ast.IfExp):
                count[0] += 1
                a = self.visit_Return(ast.copy_location(ast.Return(value=v.body), node))
                b = self.visit_Return(ast.copy_location(ast.Return(value=v.orelse), node))
                return ast.copy_location(ast.If(test=v.test, body=[a], orelse=[b]), node)
            return node

        def visit_Assign(self, node):
            v = node.value
            if isinstance(v, ast.IfExp) and len(node.targets) == 1 and isinstance(node.targets[0], ast.Name):
                count[0] += 1
                a = ast.copy_location(ast.Assign(targets=copy.deepcopy(node.targets), value=v.body), node)
                b = ast.copy_location(ast.Assign(targets=copy.deepcopy(node.targets), value=v.orelse), node)
                return ast.copy_location(ast.If(test=v.test, body=[a], orelse=[b]), node)
            return node
    new = T().visit(copy.deepcopy(funcnode))
    if not count[0]:
        return funcnode
    ast.fix_missing_locations(new)
    return new


def append_loops_as_comprehensions(funcnode):
    """A copy of the function in which

        X = []                      X = [E for v in S]
        for v in S:          ==>
            X.append(E)

    (and the same with `if C: X.append(E)` as the only statement of the body: `[E for v in S if C]`) - the two statements
    directly after one another, the loop without else, X not read in S, E or C.  Returns funcnode itself when there is
    nothing to rewrite.  A rule that asks how a sequence is built from another one then sees the comprehension whether it
    was written as one or as the loop that fills a list."""
    new = copy.deepcopy(funcnode)
    count = [0]

    def mentions(e, name):
        return any(isinstance(x, ast.Name) and x.id == name for x in ast.walk(e))

    def block(stmts):
        out = []
        i = 0
        while i < len(stmts):
            s = stmts[i]
            if not isinstance(s, (ast.FunctionDef, ast.AsyncFunctionDef, ast.ClassDef)):
                for fld in ('body', 'orelse', 'finalbody'):
                    sub = getattr(s, fld, None)
                    if isinstance(sub, list) and sub and isinstance(sub[0], ast.stmt):
                        setattr(s, fld, block(sub))
                for h in getattr(s, 'handlers', []) or []:
                    h.body = block(h.body)
            nxt = stmts[i + 1] if i + 1 < len(stmts) else None
            empty = isinstance(s, ast.Assign) and len(s.targets) == 1 and isinstance(s.targets[0], ast.Name) and (
                (isinstance(s.value, ast.List) and not s.value.elts) or
                (isinstance(s.value, ast.Call) and isinstance(s.value.func, ast.Name) and s.value.func.id == 'list' and not s.value.args))
            if empty and isinstance(nxt, ast.For) and not nxt.orelse and len(nxt.body) == 1:
                x = s.targets[0].id
                b = nxt.body[0]
                cond = None
                if isinstance(b, ast.If) and not b.orelse and len(b.body) == 1:
                    cond, b = b.test, b.body[0]
                if isinstance(b, ast.Expr) and isinstance(b.value, ast.Call) and isinstance(b.value.func, ast.Attribute) and b.value.func.attr == 'append' and \
                        isinstance(b.value.func.value, ast.Name) and b.value.func.value.id == x and len(b.value.args) == 1 and not b.value.keywords:
                    e = b.value.args[0]
                    if not mentions(nxt.iter, x) and not mentions(e, x) and (cond is None or not mentions(cond, x)):
                        comp = ast.ListComp(elt=e, generators=[ast.comprehension(target=nxt.target, iter=nxt.iter, ifs=[cond] if cond is not None else [], is_async=0)])
                        out.append(ast.copy_location(ast.Assign(targets=[ast.Name(id=x, ctx=ast.Store())], value=ast.copy_location(comp, nxt)), nxt))
                        count[0] += 1
                        i += 2
                        continue
            out.append(s)
            i += 1
        return out
    new.body = block(new.body)
    if not count[0]:
        return funcnode
    ast.fix_missing_locations(new)
    return new


def split_table_loops(funcnode):
    """A copy of the function in which a loop over a written-out table of cases, possibly joined with a comprehension that makes
    rows of the same shape,

        for a, b, flag in [(x, y, False) for x in S] + [(C, D, True)]:
            body

    is written as what it abbreviates: `for x in S: body[a := x, b := y, flag := False]` followed by `body[a := C, b := D, flag := True]`;
    conditional expressions and `if` statements whose test has become a constant are folded.  Only loops whose body neither assigns
    the loop variables nor contains break / continue / else.  Returns funcnode itself when there is nothing to rewrite."""
    from .flow import LocalFlow
    flow = LocalFlow(funcnode)
    new = copy.deepcopy(funcnode)
    count = [0]

    class Sub(ast.NodeTransformer):
        def __init__(self, mapping):
            self.m = mapping

        def visit_Name(self, node):
            if node.id in self.m and isinstance(node.ctx, ast.Load):
                return ast.copy_location(copy.deepcopy(self.m[node.id]), node)
            return node

    class Fold(ast.NodeTransformer):
        def visit_IfExp(self, node):
            self.generic_visit(node)
            if isinstance(node.test, ast.Constant) and isinstance(node.test.value, bool):
                return node.body if node.test.value else node.orelse
            return node

        def visit_If(self, node):
            self.generic_visit(node)
            if isinstance(node.test, ast.Constant) and isinstance(node.test.value, bool):
                return (node.body if node.test.value else node.orelse) or [ast.copy_location(ast.Pass(), node)]
            return node

    def parts(e):
        if isinstance(e, ast.BinOp) and isinstance(e.op, ast.Add):
            l, r = parts(e.left), parts(e.right)
            return None if l is None or r is None else l + r
        if isinstance(e, (ast.List, ast.Tuple)) and e.elts and not any(isinstance(x, ast.Starred) for x in e.elts):
            return [('rows', e.elts)]
        if isinstance(e, ast.ListComp) and len(e.generators) == 1 and not e.generators[0].is_async:
            return [('comp', e)]
        return None

    def block(stmts):
        out = []
        for s in stmts:
            if isinstance(s, (ast.FunctionDef, ast.AsyncFunctionDef, ast.ClassDef)):
                out.append(s)
                continue
            for fld in ('body', 'orelse', 'finalbody'):
                sub = getattr(s, fld, None)
                if isinstance(sub, list) and sub and isinstance(sub[0], ast.stmt):
                    setattr(s, fld, block(sub))
            for h in getattr(s, 'handlers', []) or []:
                h.body = block(h.body)
            if isinstance(s, ast.For) and not s.orelse:
                tnames = [s.target.id] if isinstance(s.target, ast.Name) else (
                    [e.id for e in s.target.elts] if isinstance(s.target, (ast.Tuple, ast.List)) and all(isinstance(e, ast.Name) for e in s.target.elts) else None)
                ps = parts(flow.inline(s.iter)) if tnames else None
                inner = [n for st in s.body for n in ast.walk(st)]
                ok = ps is not None and any(k == 'comp' for k, _v in ps) and not any(isinstance(n, (ast.Break, ast.Continue)) for n in inner) and \
                    not any(isinstance(n, ast.Name) and n.id in (tnames or []) and isinstance(n.ctx, (ast.Store, ast.Del)) for n in inner)

                def row_values(e):
                    if len(tnames) == 1 and isinstance(s.target, ast.Name):
                        return [e]
                    if isinstance(e, (ast.Tuple, ast.List)) and len(e.elts) == len(tnames) and not any(isinstance(x, ast.Starred) for x in e.elts):
                        return list(e.elts)
                    return None
                if ok:
                    pieces = []
                    for kind, v in ps:
                        if kind == 'rows':
                            for e in v:
                                vals = row_values(e)
                                if vals is None:
                                    ok = False
                                    break
                                pieces.append(('once', dict(zip(tnames, vals)), None))
                        else:
                            vals = row_values(v.elt)
                            if vals is None:
                                ok = False
                            else:
                                pieces.append(('loop', dict(zip(tnames, vals)), v.generators[0]))
                        if not ok:
                            break
                if ok:
                    # locals assigned in the body get a name of their own in each copy (z3_u of the assumptions is not z3_u of the conclusion)
                    assigned = {n.id for n in inner if isinstance(n, ast.Name) and isinstance(n.ctx, ast.Store)} | \
                        {h.name for n in inner if isinstance(n, ast.Try) for h in n.handlers if h.name}
                    used_after = set()

                    class Ren(ast.NodeTransformer):
                        def __init__(self, k):
                            self.k = k

                        def visit_Name(self, node):
                            if node.id in assigned:
                                return ast.copy_location(ast.Name(id='%s__case%d' % (node.id, self.k), ctx=node.ctx), node)
                            return node

                        def visit_ExceptHandler(self, node):
                            self.generic_visit(node)
                            if node.name in assigned:
                                node.name = '%s__case%d' % (node.name, self.k)
                            return node
                    for k_, (kind, mapping, gen) in enumerate(pieces):
                        body = []
                        for st in s.body:
                            st2 = Fold().visit(Sub(mapping).visit(Ren(k_).visit(copy.deepcopy(st))))
                            body.extend(st2 if isinstance(st2, list) else [st2])
                        if kind == 'once':
                            out.extend(body)
                        else:
                            for c in reversed(gen.ifs):
                                body = [ast.copy_location(ast.If(test=copy.deepcopy(c), body=body, orelse=[]), s)]
                            out.append(ast.copy_location(ast.For(target=copy.deepcopy(gen.target), iter=copy.deepcopy(gen.iter), body=body, orelse=[]), s))
                    count[0] += 1
                    continue
            out.append(s)
        return out
    new.body = block(new.body)
    if not count[0]:
        return funcnode
    ast.fix_missing_locations(new)
    return new


_OPERATOR_FUNCS = {'eq': ast.Eq, 'ne': ast.NotEq, 'lt': ast.Lt, 'le': ast.LtE, 'gt': ast.Gt, 'ge': ast.GtE}


def plain_attributes_and_comparisons(funcnode):
    """A copy of the function in which `getattr(x, 'name')` with a literal name is written `x.name`, and `operator.ge(a, b)`
    (eq, ne, lt, le, gt, ge) is written `a >= b` - what a dispatch over a written-out table of (predicate name, operator) pairs
    turns into once the table is unrolled.  Returns funcnode itself when there is nothing to rewrite."""
    count = [0]

    class T(ast.NodeTransformer):
        def visit_Call(self, node):
            self.generic_visit(node)
            if isinstance(node.func, ast.Name) and node.func.id == 'getattr' and len(node.args) == 2 and not node.keywords and \
                    isinstance(node.args[1], ast.Constant) and isinstance(node.args[1].value, str) and node.args[1].value.isidentifier():
                count[0] += 1
                return ast.copy_location(ast.Attribute(value=node.args[0], attr=node.args[1].value, ctx=ast.Load()), node)
            if isinstance(node.func, ast.Attribute) and isinstance(node.func.value, ast.Name) and node.func.value.id == 'operator' and \
                    node.func.attr in _OPERATOR_FUNCS and len(node.args) == 2 and not node.keywords:
                count[0] += 1
                return ast.copy_location(ast.Compare(left=node.args[0], ops=[_OPERATOR_FUNCS[node.func.attr]()], comparators=[node.args[1]]), node)
            return node
    new = T().visit(copy.deepcopy(funcnode))
    if not count[0]:
        return funcnode
    ast.fix_missing_locations(new)
    return new
